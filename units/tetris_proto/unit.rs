// Unit U12b tetris_proto: layout21tetris <-> vlsir tetris protobuf leaf converters (C19).
use vstd::prelude::*;
use std::convert::{TryFrom, TryInto};
verus! {
global size_of usize == 8;
//@ include units/common/float.inc.rs
//@ item layout21tetris/src/coords.rs :: type Int
//@ end
//@ include units/tetris_place/coords.inc.rs
//@ include units/dep_order/spec.inc.rs
impl vstd::std_specs::convert::FromSpecImpl<std::num::TryFromIntError> for LayoutError {
    open spec fn obeys_from_spec() -> bool { true }
    open spec fn from_spec(e: std::num::TryFromIntError) -> LayoutError { LayoutError { } }
}
impl From<std::num::TryFromIntError> for LayoutError { fn from(e: std::num::TryFromIntError) -> Self { LayoutError { } } }
impl PrimPitches {
//@ fn layout21tetris/src/coords.rs :: impl PrimPitches :: fn x
//@   ret r
//@   spec
//|     ensures r.dir == Dir::Horiz, r.num == num,
//@ end
//@ fn layout21tetris/src/coords.rs :: impl PrimPitches :: fn y
//@   ret r
//@   spec
//|     ensures r.dir == Dir::Vert, r.num == num,
//@ end
}
/// stand-ins for the prost-generated vlsir message structs (field names and types copied from vlsir.tetris.rs / vlsir.raw.rs / vlsir.utils.rs)
pub mod rawproto {
    #[derive(Debug, Clone, Copy)]
    pub struct Point { pub x: i64, pub y: i64 }
    impl Point { pub fn new(x: i64, y: i64) -> (r: Self) ensures r.x == x, r.y == y { Self { x, y } } }
}
pub mod proto {
    pub mod utils {
        pub struct QualifiedName { pub domain: String, pub name: String }
        pub mod reference { pub enum To { Local(String), External(super::QualifiedName) } }
        pub struct Reference { pub to: Option<reference::To> }
    }
    pub mod tetris {
        pub struct RelPlace { }
        pub mod place { pub enum Place { Abs(super::super::super::rawproto::Point), Rel(super::RelPlace) } }
        pub struct Place { pub place: Option<place::Place> }
    }
}
pub mod tproto {
    use vstd::prelude::*;
    pub use super::proto::tetris::{place, Place, RelPlace};
    pub struct Outline { pub x: Vec<i64>, pub y: Vec<i64>, pub metals: i64 }
    #[derive(Debug, Clone, Copy)]
    pub struct TrackRef { pub layer: i64, pub track: i64 }
    pub struct TrackCross { pub track: Option<TrackRef>, pub cross: Option<TrackRef> }
    pub struct Assign { pub net: String, pub at: Option<TrackCross> }
    pub struct Instance { pub name: String, pub cell: Option<super::proto::utils::Reference>, pub loc: Option<Place>, pub reflect_horiz: bool, pub reflect_vert: bool }
    pub struct Layout { pub name: String, pub outline: Option<Outline>, pub instances: Vec<Instance>, pub assignments: Vec<Assign>, pub cuts: Vec<TrackCross> }
    impl Default for Layout { fn default() -> (r: Self) ensures r.name@.len() == 0, r.outline is None, r.instances@.len() == 0, r.assignments@.len() == 0, r.cuts@.len() == 0 { Layout { name: String::new(), outline: None, instances: Vec::new(), assignments: Vec::new(), cuts: Vec::new() } } }
    // prost messages derive Default: every field its type's default
    impl Default for Outline { fn default() -> (r: Self) ensures r.x@.len() == 0, r.y@.len() == 0, r.metals == 0 { Outline { x: Vec::new(), y: Vec::new(), metals: 0 } } }
    impl Default for TrackRef { fn default() -> (r: Self) ensures r.layer == 0, r.track == 0 { TrackRef { layer: 0, track: 0 } } }
    impl Default for TrackCross { fn default() -> (r: Self) ensures r.track is None, r.cross is None { TrackCross { track: None, cross: None } } }
    impl Default for Assign { fn default() -> (r: Self) ensures r.at is None, r.net@.len() == 0 { Assign { net: String::new(), at: None } } }
    /// opaque: abstract views are outside C19's statement
    pub struct Abstract { pub name: String, pub outline: Option<Outline>, pub ports: Vec<AbstractPort> }
    pub struct AbstractPort { }
    pub struct Cell { pub name: String, pub r#abstract: Option<Abstract>, pub layout: Option<Layout> }
    pub struct Library { pub domain: String, pub cells: Vec<Cell> }
    impl Default for Cell { fn default() -> (r: Self) ensures r.name@.len() == 0, r.r#abstract is None, r.layout is None { Cell { name: String::new(), r#abstract: None, layout: None } } }
    impl Default for Library { fn default() -> (r: Self) ensures r.domain@.len() == 0, r.cells@.len() == 0 { Library { domain: String::new(), cells: Vec::new() } } }
    impl Default for Instance { fn default() -> (r: Self) ensures r.cell is None, r.loc is None, !r.reflect_horiz, !r.reflect_vert, r.name@.len() == 0 { Instance { name: String::new(), cell: None, loc: None, reflect_horiz: false, reflect_vert: false } } }
}
//@ item layout21tetris/src/tracks.rs :: struct TrackRef
//@   derive Debug, Clone, Copy
//@ end
//@ item layout21tetris/src/tracks.rs :: struct TrackCross
//@   derive Debug, Clone, Copy
//@ end
impl TrackCross {
//@ fn layout21tetris/src/tracks.rs :: impl TrackCross :: fn new
//@   ret r
//@   spec
//|     ensures r.track == track, r.cross == cross,
//@ end
}
//@ item layout21utils/src/context.rs :: enum ErrorContext
//@ end
//@ item layout21tetris/src/stack.rs :: struct Assign
//@ end
impl Assign {
    //@ pin layout21tetris/src/stack.rs :: impl Assign :: fn new @d78ca060
    /// model of Assign::new(impl Into<String>, impl Into<TrackCross>)
    #[verifier::external_body]
    pub fn new(net: String, at: TrackCross) -> (r: Self) ensures r.net@ == net@, r.at == at { Assign { net, at } }
}
// R5: PtrList<T> (a newtype over Vec<Ptr<T>> that derefs to it) as that Vec
//@ item layout21tetris/src/layout.rs :: struct Layout
//@   sub R5 /PtrList<Instance>/ => Vec<Ptr<Instance>>
//@ end
impl Layout {
    //@ pin layout21tetris/src/layout.rs :: impl Layout :: fn new @417e9a79
    /// model of Layout::new: the three given fields, everything else empty
    #[verifier::external_body]
    pub fn new(name: String, metals: usize, outline: Outline) -> (r: Self)
        ensures r.name@ == name@, r.metals == metals, r.outline == outline, r.instances@.len() == 0, r.assignments@.len() == 0, r.cuts@.len() == 0, r.places@.len() == 0,
    { unimplemented!() }
}
pub mod outline { pub use super::Outline; }
impl<T: HasUnits> Xy<T> {
//@ fn layout21tetris/src/coords.rs :: impl<T: HasUnits> Xy<T> :: fn raw
//@   ret r
//@   spec
//|     ensures r.x == self.x.raw_spec(), r.y == self.y.raw_spec(),
//@ end
}

// =====================================================================================================
// EXPORTER (layout21tetris/src/conv/proto.rs)
// =====================================================================================================
//@ item layout21tetris/src/conv/proto.rs :: struct ProtoExporter
//@   sub R4 /\n    ctx:/ => \n    pub ctx:
//@ end
pub open spec fn inst_exp(g: tproto::Instance, inst: Instance) -> bool {
    &&& g.name@ == inst.inst_name@ &&& g.reflect_vert == inst.reflect_vert &&& g.reflect_horiz == inst.reflect_horiz
    &&& inst.loc is Abs && g.loc is Some && g.loc->0.place is Some && g.loc->0.place->0 is Abs
    &&& g.loc->0.place->0->Abs_0.x == inst.loc->Abs_0.x.num && g.loc->0.place->0->Abs_0.y == inst.loc->Abs_0.y.num
    &&& g.cell is Some && g.cell->0.to is Some && g.cell->0.to->0 is Local && g.cell->0.to->0->Local_0@ == (*inst.cell.v).name@
}
pub open spec fn outline_exp(g: tproto::Outline, o: Outline, metals: usize) -> bool { dims_eq(g.x@, o.x@) && dims_eq(g.y@, o.y@) && g.metals == metals }
pub open spec fn cross_exp(g: tproto::TrackCross, c: TrackCross) -> bool {
    g.track is Some && g.cross is Some && g.track->0.layer == c.track.layer && g.track->0.track == c.track.track && g.cross->0.layer == c.cross.layer && g.cross->0.track == c.cross.track
}
pub open spec fn assn_exp(g: tproto::Assign, a: Assign) -> bool { g.net@ == a.net@ && g.at is Some && cross_exp(g.at->0, a.at) }
/// the layout message: name, outline steps and metal count, and one message per instance / assignment / cut, in order
pub open spec fn layout_exp(g: tproto::Layout, layout: Layout) -> bool {
    &&& g.name@ == layout.name@ &&& g.outline is Some && outline_exp(g.outline->0, layout.outline, layout.metals)
    &&& g.instances@.len() == layout.instances@.len() &&& forall|i: int| 0 <= i < layout.instances@.len() ==> inst_exp(#[trigger] g.instances@[i], *layout.instances@[i].v)
    &&& g.assignments@.len() == layout.assignments@.len() &&& forall|i: int| 0 <= i < layout.assignments@.len() ==> assn_exp(#[trigger] g.assignments@[i], layout.assignments@[i])
    &&& g.cuts@.len() == layout.cuts@.len() &&& forall|i: int| 0 <= i < layout.cuts@.len() ==> cross_exp(#[trigger] g.cuts@[i], layout.cuts@[i])
}
/// the cell message: the cell's name and, when it has a layout view, that layout's message
pub open spec fn cell_exp(g: tproto::Cell, c: Cell) -> bool {
    &&& g.name@ == c.name@ &&& (g.layout is Some <==> c.layout is Some) &&& (c.layout is Some ==> layout_exp(g.layout->0, c.layout->0))
}
/// the cells a cell instantiates (its layout view's instances' targets): the dependency relation of CellOrder
pub open spec fn cell_dep_seq(l: Layout) -> Seq<Ptr<Cell>> { Seq::new(l.instances@.len(), |i: int| (*l.instances@[i].v).cell) }
pub open spec fn cell_deps(item: Ptr<Cell>) -> Set<Ptr<Cell>> { match (*item.v).layout { Some(l) => cell_dep_seq(l).to_set(), None => Set::empty() } }
/// the library message: the library's name, and its cells' messages in a dependency ordering of the cell list
pub open spec fn lib_exp(g: tproto::Library, lib: Library) -> bool {
    &&& g.domain@ == lib.name@
    &&& exists|order: Seq<Ptr<Cell>>| is_dep_ordering(order, lib.cells@, |c: Ptr<Cell>| cell_deps(c)) && #[trigger] cells_exp(g.cells@, order)
}
pub open spec fn derefs(s: Seq<&Ptr<Cell>>) -> Seq<Ptr<Cell>> { Seq::new(s.len(), |i: int| *s[i]) }
pub open spec fn cells_exp(g: Seq<tproto::Cell>, order: Seq<Ptr<Cell>>) -> bool {
    g.len() == order.len() && forall|i: int| 0 <= i < order.len() ==> cell_exp(#[trigger] g[i], *order[i].v)
}
pub open spec fn dims_eq(v: Seq<i64>, p: Seq<PrimPitches>) -> bool { v.len() == p.len() && forall|i: int| 0 <= i < p.len() ==> #[trigger] v[i] == p[i].num }
impl<'lib> ProtoExporter<'lib> {
//@ fn layout21tetris/src/conv/proto.rs :: impl<'lib> ProtoExporter<'lib> :: fn export_track_ref
//@   ret r
//@   spec
//|     ensures final(self).ctx == old(self).ctx, r is Ok ==> r->Ok_0.layer == track.layer && r->Ok_0.track == track.track,
//@ end
//@ fn layout21tetris/src/conv/proto.rs :: impl<'lib> ProtoExporter<'lib> :: fn export_track_cross
//@   ret r
//@   spec
//|     ensures final(self).ctx == old(self).ctx, r is Ok ==> cross_exp(r->Ok_0, *cross),
//@ end
//@ fn layout21tetris/src/conv/proto.rs :: impl<'lib> ProtoExporter<'lib> :: fn export_assignment
//@   ret r
//@   spec
//|     ensures final(self).ctx == old(self).ctx, r is Ok ==> assn_exp(r->Ok_0, *assn),
//@ end
//@ fn layout21tetris/src/conv/proto.rs :: impl<'lib> ProtoExporter<'lib> :: fn export_dimension
//@   ret r
//@   spec
//|     ensures final(self).ctx == old(self).ctx, r is Ok ==> r->Ok_0 == p.raw_spec(),
//@ end
//@ fn layout21tetris/src/conv/proto.rs :: impl<'lib> ProtoExporter<'lib> :: fn export_dimensions
//@   ret r
//@   let rv : Vec<i64>
//@   spec
//|     ensures final(self).ctx == old(self).ctx, r is Ok ==> r->Ok_0@.len() == p@.len() && forall|i: int| 0 <= i < p@.len() ==> #[trigger] r->Ok_0@[i] == p@[i].raw_spec(),
//@   loop 1 iter it
//|             invariant self.ctx == old(self).ctx, rv@.len() == it.index@, forall|i: int| 0 <= i < it.index@ ==> #[trigger] rv@[i] == p@[i].raw_spec(),
//@ end
//@ fn layout21tetris/src/conv/proto.rs :: impl<'lib> ProtoExporter<'lib> :: fn export_point
//@   ret r
//@   spec
//|     ensures final(self).ctx == old(self).ctx, r is Ok ==> r->Ok_0.x == p.x.raw_spec() && r->Ok_0.y == p.y.raw_spec(),
//@ end
//@ fn layout21tetris/src/conv/proto.rs :: impl<'lib> ProtoExporter<'lib> :: fn export_instance
//@   ret r
//@   spec
//|     ensures final(self).ctx == old(self).ctx, r is Ok ==> inst_exp(r->Ok_0, *inst),
//@ end
//@ fn layout21tetris/src/conv/proto.rs :: impl<'lib> ProtoExporter<'lib> :: fn export_layout
//@   ret r
//@   sub R6 /for assn in &layout\.assignments \{/ => for assn in layout.assignments.iter() {
//@   sub R6 /for cut in &layout\.cuts \{/ => for cut in layout.cuts.iter() {
//@   spec
//|     ensures r is Ok ==> final(self).ctx@ == old(self).ctx@ && layout_exp(r->Ok_0, *layout),
//@   loop 1 iter it
//|             invariant self.ctx@ == old(self).ctx@.push(ErrorContext::Impl), playout.name@ == layout.name@, playout.outline is Some && outline_exp(playout.outline->0, layout.outline, layout.metals),
//|                 playout.assignments@.len() == 0, playout.cuts@.len() == 0, playout.instances@.len() == it.index@, it.index@ <= layout.instances@.len(),
//|                 forall|i: int| 0 <= i < it.index@ ==> inst_exp(#[trigger] playout.instances@[i], *layout.instances@[i].v),
//@   loop 2 iter it
//|             invariant self.ctx@ == old(self).ctx@.push(ErrorContext::Impl), playout.name@ == layout.name@, playout.outline is Some && outline_exp(playout.outline->0, layout.outline, layout.metals),
//|                 playout.cuts@.len() == 0, playout.instances@.len() == layout.instances@.len(), playout.assignments@.len() == it.index@, it.index@ <= layout.assignments@.len(),
//|                 forall|i: int| 0 <= i < layout.instances@.len() ==> inst_exp(#[trigger] playout.instances@[i], *layout.instances@[i].v),
//|                 forall|i: int| 0 <= i < it.index@ ==> assn_exp(#[trigger] playout.assignments@[i], layout.assignments@[i]),
//@   loop 3 iter it
//|             invariant self.ctx@ == old(self).ctx@.push(ErrorContext::Impl), playout.name@ == layout.name@, playout.outline is Some && outline_exp(playout.outline->0, layout.outline, layout.metals),
//|                 playout.instances@.len() == layout.instances@.len(), playout.assignments@.len() == layout.assignments@.len(), playout.cuts@.len() == it.index@, it.index@ <= layout.cuts@.len(),
//|                 forall|i: int| 0 <= i < layout.instances@.len() ==> inst_exp(#[trigger] playout.instances@[i], *layout.instances@[i].v),
//|                 forall|i: int| 0 <= i < layout.assignments@.len() ==> assn_exp(#[trigger] playout.assignments@[i], layout.assignments@[i]),
//|                 forall|i: int| 0 <= i < it.index@ ==> cross_exp(#[trigger] playout.cuts@[i], layout.cuts@[i]),
//@   before /^        Ok\(playout\)$/
//|         proof { assert(self.ctx@ =~= old(self).ctx@); }
//@ end
//@ fn layout21tetris/src/conv/proto.rs :: impl<'lib> ProtoExporter<'lib> :: fn export
//@   ret r
//@   spec
//|     ensures r is Ok ==> lib_exp(r->Ok_0, *lib),
//@ end
//@ fn layout21tetris/src/conv/proto.rs :: impl<'lib> ProtoExporter<'lib> :: fn export_lib
//@   ret r
//@   let plib : tproto::Library
//@   sub R6? /for cell in CellOrder::order\(&self\.lib\.cells\)\?\.iter\(\) \{/ => let vp_order = CellOrder::order(&self.lib.cells)?; proof { vp_all = vp_order@; } for cell in vp_order.iter() {
//@   sub R5? /self\.lib\.cells\.iter\(\)/ => self.lib.cells.v.iter()
//@   spec
//|     ensures r is Ok ==> lib_exp(r->Ok_0, *old(self).lib),
//@   atstart
//|         // the sequence of cells the export loop runs over (until the loop header says otherwise: the library's own listing)
//|         let ghost mut vp_all: Seq<Ptr<Cell>> = self.lib.cells@;
//@   loop 1 iter it
//|             invariant plib.domain@ == old(self).lib.name@, plib.cells@.len() == it.index@, it.index@ <= it.seq().len(),
//|                 // whatever sequence the loop runs over is a dependency ordering of the library's cell list
//|                 derefs(it.seq()) =~= vp_all, is_dep_ordering(vp_all, old(self).lib.cells@, |c: Ptr<Cell>| cell_deps(c)),
//|                 forall|i: int| 0 <= i < it.index@ ==> cell_exp(#[trigger] plib.cells@[i], *vp_all[i].v),
//@   before /^        Ok\(plib\)$/
//|         proof { assert(cells_exp(plib.cells@, vp_all)); }
//@ end
//@ fn layout21tetris/src/conv/proto.rs :: impl<'lib> ProtoExporter<'lib> :: fn export_cell
//@   ret r
//@   spec
//|     ensures r is Ok ==> cell_exp(r->Ok_0, *cell),
//@ end
    /// abstract views are outside C19's statement: no contract, nothing assumed
    #[verifier::external_body]
    fn export_abstract(&mut self, abs: &Abstract) -> (r: LayoutResult<tproto::Abstract>) { unimplemented!() }
//@ fn layout21tetris/src/conv/proto.rs :: impl<'lib> ProtoExporter<'lib> :: fn export_outline
//@   ret r
//@   spec
//|     ensures final(self).ctx == old(self).ctx, r is Ok ==> outline_exp(r->Ok_0, *outline, metals),
//@ end
}

// =====================================================================================================
// IMPORTER
// =====================================================================================================
pub mod abs { pub use super::Abstract; }
pub struct Port { }
//@ item layout21tetris/src/abs.rs :: struct Abstract
//@ end
impl Abstract {
    //@ pin layout21tetris/src/abs.rs :: impl Abstract :: fn new @9c05dab1
    /// model of Abstract::new(impl Into<String>, metals, outline)
    #[verifier::external_body]
    pub fn new(name: &String, metals: usize, outline: Outline) -> (r: Self) ensures r.name@ == name@, r.metals == metals, r.outline == outline, r.ports@.len() == 0 { unimplemented!() }
}
// R5: the interface-bundle and raw-layout views (not converted by conv/proto.rs) as opaque types
pub mod interface { pub struct Bundle { } }
pub struct RawLayoutPtr { }
//@ item layout21tetris/src/cell.rs :: struct Cell
//@ end
//@ pin layout21tetris/src/cell.rs :: impl From<Layout> for Cell :: fn from @6c4fc9f0
/// model of `impl From<Layout> for Cell` (cell.rs): named after the layout, only the layout view
impl vstd::std_specs::convert::FromSpecImpl<Layout> for Cell {
    open spec fn obeys_from_spec() -> bool { true }
    open spec fn from_spec(src: Layout) -> Cell { Cell { name: src.name, interface: None, abs: None, layout: Some(src), raw: None } }
}
impl From<Layout> for Cell {
    #[verifier::external_body]
    fn from(src: Layout) -> (r: Cell) ensures r.name@ == src.name@, r.layout == Some(src), r.abs is None { unimplemented!() }
}
impl Cell {
    //@ pin layout21tetris/src/cell.rs :: impl Cell :: fn new @b3069758
    /// model of Cell::new(impl Into<String>): the name, every view absent (`..Default::default()`)
    #[verifier::external_body]
    pub fn new(name: &String) -> (r: Self) ensures r.name@ == name@, r.abs is None, r.layout is None { unimplemented!() }
}
//@ pin layout21utils/src/ptr.rs :: impl<T> PtrList<T> :: fn insert @cadd958f
//@ pin layout21utils/src/ptr.rs :: impl<T> PtrList<T> :: fn add @305d31d1
/// model of layout21utils::PtrList<T> (newtype over Vec<Ptr<T>>); `insert` = `add`: wrap in a new Ptr, append, return the pointer
pub struct PtrList<T> { pub v: Vec<Ptr<T>> }
impl<T> View for PtrList<T> { type V = Seq<Ptr<T>>; open spec fn view(&self) -> Seq<Ptr<T>> { self.v@ } }
impl<T> PtrList<T> {
    #[verifier::external_body]
    pub fn insert(&mut self, t: T) -> (r: Ptr<T>) ensures final(self)@ == old(self)@.push(r), *r.v == t { unimplemented!() }
}
/// R5: layout21tetris::library::Library without its raw-library list
pub struct Library { pub name: String, pub cells: PtrList<Cell> }
impl Library {
    //@ pin layout21tetris/src/library.rs :: impl Library :: fn new @b3069758
    /// model of Library::new(impl Into<String>)
    #[verifier::external_body]
    pub fn new(name: String) -> (r: Self) ensures r.name@ == name@, r.cells@.len() == 0 { unimplemented!() }
}
/// `CellOrder::order` with, as an ASSUMED contract, the contract proved for the generic `DepOrder::order` in unit dep_order given the
/// `process` contract proved for CellOrder in unit order_impls (pointee(p) there is `*p.v` here)
pub struct CellOrder;
impl CellOrder {
    #[verifier::external_body]
    pub fn order(items: &PtrList<Cell>) -> (r: LayoutResult<Vec<Ptr<Cell>>>)
        ensures r is Ok ==> is_dep_ordering(r->Ok_0@, items@, |c: Ptr<Cell>| cell_deps(c)),
    { unimplemented!() }
}
pub struct CellMap { pub m: Vec<Ptr<Cell>> }
impl CellMap {
    /// model of HashMap::insert: the key now maps to `v`, every other key as before
    #[verifier::external_body]
    pub fn insert(&mut self, k: String, v: Ptr<Cell>) -> (r: Option<Ptr<Cell>>)
        ensures forall|q: Seq<char>| #[trigger] final(self).lookup(q) == (if q == k@ { Some(v) } else { old(self).lookup(q) }),
    { unimplemented!() }
    pub uninterp spec fn lookup(&self, k: Seq<char>) -> Option<Ptr<Cell>>;
    #[verifier::external_body]
    pub fn get(&self, k: &String) -> (r: Option<&Ptr<Cell>>)
        ensures (r is Some) == (self.lookup(k@) is Some), r is Some ==> *r->0 == self.lookup(k@)->0,
    { unimplemented!() }
}
impl<T> Clone for Ptr<T> { #[verifier::external_body] fn clone(&self) -> (r: Self) ensures r == *self { unimplemented!() } }
impl<T> Ptr<T> { #[verifier::external_body] pub fn new(v: T) -> (r: Self) ensures *r.v == v { Ptr { v: Box::new(v) } } }
pub struct ArrayInstance { pub name: String }
pub struct GroupInstance { pub name: String }
pub struct RelAssign { pub net: String }
//@ item layout21tetris/src/placement.rs :: enum Align
//@ end
//@ item layout21tetris/src/placement.rs :: enum SepBy
//@ end
//@ item layout21tetris/src/placement.rs :: struct Separation
//@ end
//@ item layout21tetris/src/placement.rs :: enum Placeable
//@ end
//@ item layout21tetris/src/placement.rs :: struct RelativePlace
//@ end
//@ item layout21tetris/src/placement.rs :: enum Place
//@ end
//@ item layout21tetris/src/instance.rs :: struct Instance
//@ end
impl<T> Place<T> {
//@ fn layout21tetris/src/placement.rs :: impl<T> Place<T> :: fn abs
//@   ret r
//@   spec
//|     ensures r is Ok <==> *self is Abs, r is Ok ==> *r->Ok_0 == self->Abs_0,
//@ end
}
//@ item layout21tetris/src/conv/proto.rs :: struct ProtoLibImporter
//@   sub R5 /cell_map: HashMap<String, Ptr<Cell>>,[^\n]*/ => pub cell_map: CellMap,
//@   sub R4 /\n    ctx: Vec<ErrorContext>,[^\n]*/ => \n    pub ctx: Vec<ErrorContext>,
//@ end
pub open spec fn inst_imp(i: Instance, g: tproto::Instance, m: CellMap) -> bool {
    &&& i.inst_name@ == g.name@ &&& i.reflect_horiz == g.reflect_horiz &&& i.reflect_vert == g.reflect_vert
    &&& g.loc is Some && g.loc->0.place is Some && g.loc->0.place->0 is Abs
    &&& i.loc is Abs && i.loc->Abs_0.x.num == g.loc->0.place->0->Abs_0.x && i.loc->Abs_0.y.num == g.loc->0.place->0->Abs_0.y
    &&& i.loc->Abs_0.x.dir == Dir::Horiz && i.loc->Abs_0.y.dir == Dir::Vert
    &&& g.cell is Some && g.cell->0.to is Some && g.cell->0.to->0 is Local && m.lookup(g.cell->0.to->0->Local_0@) == Some(i.cell)
}
pub open spec fn cross_imp(c: TrackCross, g: tproto::TrackCross) -> bool {
    g.track is Some && g.cross is Some && c.track.layer == g.track->0.layer && c.track.track == g.track->0.track && c.cross.layer == g.cross->0.layer && c.cross.track == g.cross->0.track
}
pub open spec fn assn_imp(a: Assign, g: tproto::Assign) -> bool { a.net@ == g.net@ && g.at is Some && cross_imp(a.at, g.at->0) }
/// the imported outline has exactly the message's steps, is a valid staircase, and keeps the metal count
pub open spec fn outline_imp(o: Outline, m: usize, g: tproto::Outline) -> bool { dims_eq(g.x@, o.x@) && dims_eq(g.y@, o.y@) && outline_valid(o.x@, o.y@) && m == g.metals }
/// the imported layout: name, outline, metal count, and one instance / assignment / cut per message, in order; nothing else
pub open spec fn layout_imp(l: Layout, playout: tproto::Layout, m: CellMap) -> bool {
    &&& l.name@ == playout.name@ &&& playout.outline is Some && outline_imp(l.outline, l.metals, playout.outline->0)
    &&& l.instances@.len() == playout.instances@.len() &&& forall|i: int| 0 <= i < playout.instances@.len() ==> inst_imp(*(#[trigger] l.instances@[i]).v, playout.instances@[i], m)
    &&& l.assignments@.len() == playout.assignments@.len() &&& forall|i: int| 0 <= i < playout.assignments@.len() ==> assn_imp(#[trigger] l.assignments@[i], playout.assignments@[i])
    &&& l.cuts@.len() == playout.cuts@.len() &&& forall|i: int| 0 <= i < playout.cuts@.len() ==> cross_imp(#[trigger] l.cuts@[i], playout.cuts@[i])
    &&& l.places@.len() == 0
}
/// the imported cell: the message's name and, exactly when the message has one, its layout imported against cell map `m`
pub open spec fn cell_imp(c: Cell, g: tproto::Cell, m: CellMap) -> bool {
    &&& c.name@ == g.name@ &&& (c.layout is Some <==> g.layout is Some) &&& (g.layout is Some ==> layout_imp(c.layout->0, g.layout->0, m))
}
/// what the cell map answers for name `q` once the first `n` cell messages have been imported on top of map `m0`
pub open spec fn lk_after(m0: CellMap, pcells: Seq<tproto::Cell>, cells: Seq<Ptr<Cell>>, n: nat, q: Seq<char>) -> Option<Ptr<Cell>>
    decreases n
{
    if n == 0 { m0.lookup(q) } else if pcells[n - 1].name@ == q { Some(cells[n - 1]) } else { lk_after(m0, pcells, cells, (n - 1) as nat, q) }
}
pub open spec fn map_is(m: CellMap, m0: CellMap, pcells: Seq<tproto::Cell>, cells: Seq<Ptr<Cell>>, n: nat) -> bool {
    forall|q: Seq<char>| #[trigger] m.lookup(q) == lk_after(m0, pcells, cells, n, q)
}
/// cell `i` of the library is message `i` imported against the map holding exactly the earlier messages' cells
pub open spec fn cell_imported(cells: Seq<Ptr<Cell>>, pcells: Seq<tproto::Cell>, m0: CellMap, i: int) -> bool {
    exists|m: CellMap| map_is(m, m0, pcells, cells, i as nat) && #[trigger] cell_imp(*cells[i].v, pcells[i], m)
}
pub open spec fn lib_imp(lib: Library, plib: tproto::Library, m0: CellMap, m1: CellMap) -> bool {
    &&& lib.name@ == plib.domain@ &&& lib.cells@.len() == plib.cells@.len()
    &&& forall|i: int| 0 <= i < plib.cells@.len() ==> #[trigger] cell_imported(lib.cells@, plib.cells@, m0, i)
    &&& map_is(m1, m0, plib.cells@, lib.cells@, plib.cells@.len())
}
pub proof fn lemma_lk_ext(m0: CellMap, pcells: Seq<tproto::Cell>, c1: Seq<Ptr<Cell>>, c2: Seq<Ptr<Cell>>, n: nat, q: Seq<char>)
    requires n <= c1.len(), n <= c2.len(), forall|k: int| 0 <= k < n ==> c1[k] == c2[k],
    ensures lk_after(m0, pcells, c1, n, q) == lk_after(m0, pcells, c2, n, q),
    decreases n
{
    if n > 0 { lemma_lk_ext(m0, pcells, c1, c2, (n - 1) as nat, q); }
}
/// model of #[derive(Default)]: empty error stack, empty cell map
impl Default for ProtoLibImporter {
    #[verifier::external_body]
    fn default() -> (r: Self) ensures r.ctx@.len() == 0, forall|q: Seq<char>| #[trigger] r.cell_map.lookup(q) is None { unimplemented!() }
}
impl ProtoLibImporter {
    #[verifier::external_body]
    fn fail<T, M>(&self, msg: M) -> (r: LayoutResult<T>) ensures r is Err { Err(LayoutError { }) }
    /// model of ErrorHelper::unwrap (Some(v) => Ok(v), None => self.fail(msg))
    #[verifier::external_body]
    fn unwrap<T, M>(&self, opt: Option<T>, msg: M) -> (r: LayoutResult<T>)
        ensures opt is Some ==> r == Ok::<T, LayoutError>(opt->0), opt is None ==> r is Err,
    { unimplemented!() }
//@ fn layout21tetris/src/conv/proto.rs :: impl ProtoLibImporter :: fn import
//@   ret r
//@   spec
//|     ensures r is Ok ==> exists|m0: CellMap, m1: CellMap| (forall|q: Seq<char>| #[trigger] m0.lookup(q) is None) && #[trigger] lib_imp(r->Ok_0, *plib, m0, m1),
//@ end
//@ fn layout21tetris/src/conv/proto.rs :: impl ProtoLibImporter :: fn import_lib
//@   ret r
//@   sub R6 /for cell in &plib\.cells \{/ => for cell in plib.cells.iter() {
//@   spec
//|     ensures r is Ok ==> lib_imp(r->Ok_0, *plib, old(self).cell_map, final(self).cell_map),
//@   loop 1 iter it
//|             invariant lib.name@ == plib.domain@, lib.cells@.len() == it.index@, it.index@ <= plib.cells@.len(),
//|                 forall|i: int| 0 <= i < it.index@ ==> #[trigger] cell_imported(lib.cells@, plib.cells@, old(self).cell_map, i),
//|                 map_is(self.cell_map, old(self).cell_map, plib.cells@, lib.cells@, it.index@ as nat),
//@   before1 /let cell = self\.import_cell\(/
//|             let ghost m_prev = self.cell_map; let ghost cells_prev = lib.cells@; let ghost n = it.index@;
//@   after1 /self\.cell_map\.insert\(/
//|             proof {
//|                 let m0 = old(self).cell_map; let pc = plib.cells@; let cs = lib.cells@;
//|                 assert forall|q: Seq<char>| #[trigger] lk_after(m0, pc, cells_prev, n as nat, q) == lk_after(m0, pc, cs, n as nat, q) by { lemma_lk_ext(m0, pc, cells_prev, cs, n as nat, q); }
//|                 assert(map_is(m_prev, m0, pc, cs, n as nat));
//|                 assert(cell_imp(*cs[n].v, pc[n], m_prev));
//|                 assert(cell_imported(cs, pc, m0, n));
//|                 assert forall|i: int| 0 <= i < n implies #[trigger] cell_imported(cs, pc, m0, i) by {
//|                     assert(cell_imported(cells_prev, pc, m0, i));
//|                     let m = choose|m: CellMap| map_is(m, m0, pc, cells_prev, i as nat) && #[trigger] cell_imp(*cells_prev[i].v, pc[i], m);
//|                     assert forall|q: Seq<char>| #[trigger] m.lookup(q) == lk_after(m0, pc, cs, i as nat, q) by { lemma_lk_ext(m0, pc, cells_prev, cs, i as nat, q); }
//|                     assert(map_is(m, m0, pc, cs, i as nat) && cell_imp(*cs[i].v, pc[i], m));
//|                 }
//|             }
//@ end
//@ fn layout21tetris/src/conv/proto.rs :: impl ProtoLibImporter :: fn import_cell
//@   ret r
//@   spec
//|     ensures final(self).cell_map == old(self).cell_map, r is Ok ==> cell_imp(r->Ok_0, *pcell, old(self).cell_map),
//@ end
//@ fn layout21tetris/src/conv/proto.rs :: impl ProtoLibImporter :: fn import_abstract
//@   ret r
//@   sub R6 /for pport in &pabs\.ports \{/ => for pport in pabs.ports.iter() {
//@   spec
//|     ensures final(self).cell_map == old(self).cell_map,
//@   loop 1
//|             invariant self.cell_map == old(self).cell_map,
//@ end
    /// `todo!()` in the source: never returns, so the frame below is vacuous
    #[verifier::external_body]
    fn import_abstract_port(&mut self, _pport: &tproto::AbstractPort) -> (r: LayoutResult<Port>) ensures final(self).cell_map == old(self).cell_map { todo!() }
//@ fn layout21tetris/src/conv/proto.rs :: impl ProtoLibImporter :: fn import_reference
//@   ret r
//@   sub R5 /let cellname: &str = match pref_to/ => let cellname: &String = match pref_to
//@   spec
//|     ensures final(self).cell_map == old(self).cell_map, final(self).ctx == old(self).ctx,
//|         r is Ok ==> pinst.cell is Some && pinst.cell->0.to is Some && pinst.cell->0.to->0 is Local
//|             && old(self).cell_map.lookup(pinst.cell->0.to->0->Local_0@) == Some(r->Ok_0),
//|         // a reference to an undefined cell, an external or a missing reference is an error, not a crash
//|         (pinst.cell is None || pinst.cell->0.to is None || pinst.cell->0.to->0 is External
//|             || old(self).cell_map.lookup(pinst.cell->0.to->0->Local_0@) is None) ==> r is Err,
//@ end
//@ fn layout21tetris/src/conv/proto.rs :: impl ProtoLibImporter :: fn import_instance
//@   ret r
//@   sub R7 /ErrorContext::Instance\(inst_name\.clone\(\)\)/ => ErrorContext::Instance(String::new())
//@   spec
//|     ensures final(self).cell_map == old(self).cell_map, r is Ok ==> final(self).ctx@ == old(self).ctx@ && inst_imp(*r->Ok_0.v, *pinst, old(self).cell_map),
//@   before /^        Ok\(inst\)$/
//|         proof { assert(self.ctx@ =~= old(self).ctx@); }
//@   spec
//|         // no location, or a relative placement, is an error rather than a crash
//|         (pinst.loc is None || pinst.loc->0.place is None || pinst.loc->0.place->0 is Rel) ==> r is Err,
//@ end
//@ fn layout21tetris/src/conv/proto.rs :: impl ProtoLibImporter :: fn import_track_ref
//@   ret r
//@   spec
//|     ensures final(self).cell_map == old(self).cell_map, final(self).ctx == old(self).ctx, r is Ok <==> (pref.layer >= 0 && pref.track >= 0), r is Ok ==> r->Ok_0.layer == pref.layer && r->Ok_0.track == pref.track,
//@ end
//@ fn layout21tetris/src/conv/proto.rs :: impl ProtoLibImporter :: fn import_track_cross
//@   ret r
//@   spec
//|     ensures final(self).cell_map == old(self).cell_map, final(self).ctx == old(self).ctx, r is Ok ==> cross_imp(r->Ok_0, *pcross),
//|         // a missing sub-message is an error, not a crash
//|         (pcross.track is None || pcross.cross is None) ==> r is Err,
//@ end
//@ fn layout21tetris/src/conv/proto.rs :: impl ProtoLibImporter :: fn import_prim_pitches
//@   ret r
//@   spec
//|     ensures final(self).cell_map == old(self).cell_map, final(self).ctx == old(self).ctx, r is Ok ==> r->Ok_0.dir == dir && r->Ok_0.num == pt,
//@ end
//@ fn layout21tetris/src/conv/proto.rs :: impl ProtoLibImporter :: fn import_prim_pitches_list
//@   ret r
//@   let rv : Vec<PrimPitches>
//@   spec
//|     ensures final(self).cell_map == old(self).cell_map, final(self).ctx == old(self).ctx, r is Ok ==> dims_eq(pts@, r->Ok_0@) && forall|i: int| 0 <= i < pts@.len() ==> (#[trigger] r->Ok_0@[i]).dir == dir,
//@   loop 1 iter it
//|             invariant self.cell_map == old(self).cell_map, self.ctx == old(self).ctx, rv@.len() == it.index@, forall|i: int| 0 <= i < it.index@ ==> (#[trigger] rv@[i]).num == pts@[i] && rv@[i].dir == dir,
//@ end
//@ fn layout21tetris/src/conv/proto.rs :: impl ProtoLibImporter :: fn import_xy_prim_pitches
//@   ret r
//@   spec
//|     ensures final(self).cell_map == old(self).cell_map, final(self).ctx == old(self).ctx, r is Ok ==> r->Ok_0.x.dir == Dir::Horiz && r->Ok_0.y.dir == Dir::Vert && r->Ok_0.x.num == pt.x && r->Ok_0.y.num == pt.y,
//@ end
//@ fn layout21tetris/src/conv/proto.rs :: impl ProtoLibImporter :: fn import_outline
//@   ret r
//@   spec
//|     ensures final(self).cell_map == old(self).cell_map, final(self).ctx == old(self).ctx, r is Ok ==> outline_imp(r->Ok_0.0, r->Ok_0.1, *poutline),
//|         // an invalid outline (lengths differ, empty, negative, wrong monotonicity) is an error
//|         (poutline.x@.len() != poutline.y@.len() || poutline.x@.len() == 0 || poutline.metals < 0) ==> r is Err,
//@ end
//@ fn layout21tetris/src/conv/proto.rs :: impl ProtoLibImporter :: fn import_assignment
//@   ret r
//@   spec
//|     ensures final(self).cell_map == old(self).cell_map, final(self).ctx == old(self).ctx, r is Ok ==> assn_imp(r->Ok_0, *passn),
//|         passn.at is None ==> r is Err,
//@ end
//@ fn layout21tetris/src/conv/proto.rs :: impl ProtoLibImporter :: fn import_layout
//@   ret r
//@   sub R6 /for inst in &playout\.instances \{/ => for inst in playout.instances.iter() {
//@   sub R6 /for s in &playout\.assignments \{/ => for s in playout.assignments.iter() {
//@   sub R6 /for txt in &playout\.cuts \{/ => for txt in playout.cuts.iter() {
//@   spec
//|     ensures final(self).cell_map == old(self).cell_map,
//|         r is Ok ==> final(self).ctx@ == old(self).ctx@ && layout_imp(r->Ok_0, *playout, old(self).cell_map),
//|         playout.outline is None ==> r is Err,
//@   loop 1 iter it
//|             invariant self.cell_map == old(self).cell_map, self.ctx@ == old(self).ctx@.push(ErrorContext::Impl), layout.name@ == playout.name@, playout.outline is Some && outline_imp(layout.outline, layout.metals, playout.outline->0),
//|                 layout.places@.len() == 0, layout.assignments@.len() == 0, layout.cuts@.len() == 0, layout.instances@.len() == it.index@, it.index@ <= playout.instances@.len(),
//|                 forall|i: int| 0 <= i < it.index@ ==> inst_imp(*(#[trigger] layout.instances@[i]).v, playout.instances@[i], self.cell_map),
//@   loop 2 iter it
//|             invariant self.cell_map == old(self).cell_map, self.ctx@ == old(self).ctx@.push(ErrorContext::Impl), layout.name@ == playout.name@, playout.outline is Some && outline_imp(layout.outline, layout.metals, playout.outline->0),
//|                 layout.places@.len() == 0, layout.cuts@.len() == 0, layout.instances@.len() == playout.instances@.len(), layout.assignments@.len() == it.index@, it.index@ <= playout.assignments@.len(),
//|                 forall|i: int| 0 <= i < playout.instances@.len() ==> inst_imp(*(#[trigger] layout.instances@[i]).v, playout.instances@[i], self.cell_map),
//|                 forall|i: int| 0 <= i < it.index@ ==> assn_imp(#[trigger] layout.assignments@[i], playout.assignments@[i]),
//@   loop 3 iter it
//|             invariant self.cell_map == old(self).cell_map, self.ctx@ == old(self).ctx@.push(ErrorContext::Impl), layout.name@ == playout.name@, playout.outline is Some && outline_imp(layout.outline, layout.metals, playout.outline->0),
//|                 layout.places@.len() == 0, layout.instances@.len() == playout.instances@.len(), layout.assignments@.len() == playout.assignments@.len(), layout.cuts@.len() == it.index@, it.index@ <= playout.cuts@.len(),
//|                 forall|i: int| 0 <= i < playout.instances@.len() ==> inst_imp(*(#[trigger] layout.instances@[i]).v, playout.instances@[i], self.cell_map),
//|                 forall|i: int| 0 <= i < playout.assignments@.len() ==> assn_imp(#[trigger] layout.assignments@[i], playout.assignments@[i]),
//|                 forall|i: int| 0 <= i < it.index@ ==> cross_imp(#[trigger] layout.cuts@[i], playout.cuts@[i]),
//@   before /^        Ok\(layout\)$/
//|         proof { assert(self.ctx@ =~= old(self).ctx@); }
//@ end
}
/// a name defined by one of the first `n` messages is found in the map built from them
pub proof fn lemma_lk_some(m0: CellMap, pcells: Seq<tproto::Cell>, cells: Seq<Ptr<Cell>>, n: nat, j: int)
    requires 0 <= j < n,
    ensures lk_after(m0, pcells, cells, n, pcells[j].name@) is Some,
    decreases n
{
    if pcells[n - 1].name@ != pcells[j].name@ { lemma_lk_some(m0, pcells, cells, (n - 1) as nat, j); }
}
/// THEOREM (C19 "cells exported after the cells they instantiate, so that import resolves every reference"): in an exported library
/// message, every instance of message i's layout refers by name to a cell defined by an EARLIER message; hence, whatever pointers the
/// importer has created for the earlier messages, its cell map answers that name when message i is imported
pub proof fn theorem_export_resolvable(g: tproto::Library, lib: Library, m0: CellMap, cells: Seq<Ptr<Cell>>, i: int, k: int)
    requires lib_exp(g, lib), 0 <= i < g.cells@.len(), g.cells@[i].layout is Some, 0 <= k < g.cells@[i].layout->0.instances@.len(),
    ensures ({
        let gi = g.cells@[i].layout->0.instances@[k];
        &&& gi.cell is Some && gi.cell->0.to is Some && gi.cell->0.to->0 is Local
        &&& exists|j: int| 0 <= j < i && (#[trigger] g.cells@[j]).name@ == gi.cell->0.to->0->Local_0@
        &&& lk_after(m0, g.cells@, cells, i as nat, gi.cell->0.to->0->Local_0@) is Some
    }),
{
    let order = choose|order: Seq<Ptr<Cell>>| is_dep_ordering(order, lib.cells@, |c: Ptr<Cell>| cell_deps(c)) && #[trigger] cells_exp(g.cells@, order);
    let c = *order[i].v;
    assert(cell_exp(g.cells@[i], c));
    let l = c.layout->0;
    let gi = g.cells@[i].layout->0.instances@[k];
    assert(inst_exp(gi, *l.instances@[k].v));
    let dep = (*l.instances@[k].v).cell;
    assert(cell_dep_seq(l)[k] == dep);
    assert(cell_deps(order[i]).contains(dep));
    let f = |c: Ptr<Cell>| cell_deps(c);
    assert(f(order[i]).subset_of(order.take(i).to_set()));
    assert(order.take(i).contains(dep));
    let j = choose|j: int| 0 <= j < order.take(i).len() && order.take(i)[j] == dep;
    assert(order[j] == dep);
    assert(cell_exp(g.cells@[j], *order[j].v));
    lemma_lk_some(m0, g.cells@, cells, i as nat, j);
}
// ---- round trip: a pure consequence of the two converters' contracts ----
pub open spec fn steps_same(a: Seq<PrimPitches>, b: Seq<PrimPitches>) -> bool { a.len() == b.len() && forall|i: int| 0 <= i < a.len() ==> (#[trigger] a[i]).num == b[i].num }
pub open spec fn inst_same(a: Instance, b: Instance) -> bool {
    &&& a.inst_name@ == b.inst_name@ &&& a.reflect_horiz == b.reflect_horiz &&& a.reflect_vert == b.reflect_vert
    &&& a.loc is Abs && b.loc is Abs && a.loc->Abs_0.x.num == b.loc->Abs_0.x.num && a.loc->Abs_0.y.num == b.loc->Abs_0.y.num
    &&& (*a.cell.v).name@ == (*b.cell.v).name@
}
pub open spec fn layout_same(a: Layout, b: Layout) -> bool {
    &&& a.name@ == b.name@ &&& a.metals == b.metals &&& steps_same(a.outline.x@, b.outline.x@) &&& steps_same(a.outline.y@, b.outline.y@)
    &&& a.instances@.len() == b.instances@.len() &&& forall|i: int| 0 <= i < a.instances@.len() ==> inst_same(*(#[trigger] a.instances@[i]).v, *b.instances@[i].v)
    &&& a.assignments@.len() == b.assignments@.len() &&& forall|i: int| 0 <= i < a.assignments@.len() ==> (#[trigger] a.assignments@[i]).net@ == b.assignments@[i].net@ && a.assignments@[i].at == b.assignments@[i].at
    &&& a.cuts@.len() == b.cuts@.len() &&& forall|i: int| 0 <= i < a.cuts@.len() ==> #[trigger] a.cuts@[i] == b.cuts@[i]
}
pub open spec fn cell_same(a: Cell, b: Cell) -> bool { a.name@ == b.name@ && (a.layout is Some <==> b.layout is Some) && (a.layout is Some ==> layout_same(a.layout->0, b.layout->0)) }
/// over an initially empty map, a successful lookup after `n` messages yields the cell of a message (among the first n) with that name
pub proof fn lemma_lk_hit(m0: CellMap, pcells: Seq<tproto::Cell>, cells: Seq<Ptr<Cell>>, n: nat, q: Seq<char>)
    requires forall|x: Seq<char>| #[trigger] m0.lookup(x) is None, lk_after(m0, pcells, cells, n, q) is Some,
    ensures exists|j: int| 0 <= j < n && (#[trigger] pcells[j]).name@ == q && lk_after(m0, pcells, cells, n, q) == Some(cells[j]),
    decreases n
{
    if n > 0 && pcells[n - 1].name@ != q {
        lemma_lk_hit(m0, pcells, cells, (n - 1) as nat, q);
        let j = choose|j: int| 0 <= j < n - 1 && (#[trigger] pcells[j]).name@ == q && lk_after(m0, pcells, cells, (n - 1) as nat, q) == Some(cells[j]);
        assert(0 <= j < n && pcells[j].name@ == q);
    } else if n > 0 { assert(pcells[n - 1].name@ == q); }
}
pub proof fn lemma_layout_roundtrip(a: Layout, g: tproto::Layout, b: Layout, m: CellMap, m0: CellMap, pcells: Seq<tproto::Cell>, cells: Seq<Ptr<Cell>>, n: nat)
    requires layout_exp(g, a), layout_imp(b, g, m), map_is(m, m0, pcells, cells, n), forall|x: Seq<char>| #[trigger] m0.lookup(x) is None,
        n <= cells.len(), n <= pcells.len(), forall|j: int| 0 <= j < n ==> (*(#[trigger] cells[j]).v).name@ == pcells[j].name@,
    ensures layout_same(a, b),
{
    assert forall|i: int| 0 <= i < a.instances@.len() implies inst_same(*(#[trigger] a.instances@[i]).v, *b.instances@[i].v) by {
        assert(inst_exp(g.instances@[i], *a.instances@[i].v));
        assert(inst_imp(*b.instances@[i].v, g.instances@[i], m));
        let q = g.instances@[i].cell->0.to->0->Local_0@;
        assert(m.lookup(q) == lk_after(m0, pcells, cells, n, q));
        lemma_lk_hit(m0, pcells, cells, n, q);
    }
    assert forall|i: int| 0 <= i < a.assignments@.len() implies (#[trigger] a.assignments@[i]).net@ == b.assignments@[i].net@ && a.assignments@[i].at == b.assignments@[i].at by {
        assert(assn_exp(g.assignments@[i], a.assignments@[i])); assert(assn_imp(b.assignments@[i], g.assignments@[i]));
    }
    assert forall|i: int| 0 <= i < a.cuts@.len() implies #[trigger] a.cuts@[i] == b.cuts@[i] by {
        assert(cross_exp(g.cuts@[i], a.cuts@[i])); assert(cross_imp(b.cuts@[i], g.cuts@[i]));
    }
    assert forall|i: int| 0 <= i < a.outline.x@.len() implies (#[trigger] a.outline.x@[i]).num == b.outline.x@[i].num by { assert(g.outline->0.x@[i] == a.outline.x@[i].num); assert(g.outline->0.x@[i] == b.outline.x@[i].num); }
    assert forall|i: int| 0 <= i < a.outline.y@.len() implies (#[trigger] a.outline.y@[i]).num == b.outline.y@[i].num by { assert(g.outline->0.y@[i] == a.outline.y@[i].num); assert(g.outline->0.y@[i] == b.outline.y@[i].num); }
}
/// THEOREM (C19, first sentence): whatever `export` produced for `lib`, whatever `import` then built from it (starting from an empty cell
/// map) has the library's name and, cell for cell along the export's dependency ordering, the same name, outline steps, metal count,
/// instances (name, target cell name, location, reflections), assignments and cuts
pub proof fn theorem_roundtrip(lib: Library, g: tproto::Library, lib2: Library, m0: CellMap, m1: CellMap)
    requires lib_exp(g, lib), lib_imp(lib2, g, m0, m1), forall|x: Seq<char>| #[trigger] m0.lookup(x) is None,
    ensures lib2.name@ == lib.name@,
        exists|order: Seq<Ptr<Cell>>| is_dep_ordering(order, lib.cells@, |c: Ptr<Cell>| cell_deps(c)) && #[trigger] cells_same(order, lib2.cells@),
{
    let order = choose|order: Seq<Ptr<Cell>>| is_dep_ordering(order, lib.cells@, |c: Ptr<Cell>| cell_deps(c)) && #[trigger] cells_exp(g.cells@, order);
    let cs = lib2.cells@; let pc = g.cells@;
    assert forall|i: int| 0 <= i < order.len() implies cell_same(*(#[trigger] order[i]).v, *cs[i].v) by {
        assert(cell_exp(pc[i], *order[i].v));
        assert(cell_imported(cs, pc, m0, i));
        let m = choose|m: CellMap| map_is(m, m0, pc, cs, i as nat) && #[trigger] cell_imp(*cs[i].v, pc[i], m);
        if pc[i].layout is Some {
            assert forall|j: int| 0 <= j < i implies (*(#[trigger] cs[j]).v).name@ == pc[j].name@ by {
                assert(cell_imported(cs, pc, m0, j));
            }
            lemma_layout_roundtrip((*order[i].v).layout->0, pc[i].layout->0, (*cs[i].v).layout->0, m, m0, pc, cs, i as nat);
        }
    }
    assert(cells_same(order, cs));
}
pub open spec fn cells_same(order: Seq<Ptr<Cell>>, cells: Seq<Ptr<Cell>>) -> bool { order.len() == cells.len() && forall|i: int| 0 <= i < order.len() ==> cell_same(*(#[trigger] order[i]).v, *cells[i].v) }
proof fn canary_roundtrip(lib: Library, g: tproto::Library, lib2: Library, m0: CellMap, m1: CellMap)
    requires lib_exp(g, lib), lib_imp(lib2, g, m0, m1), forall|x: Seq<char>| #[trigger] m0.lookup(x) is None, g.cells@.len() == 2, g.cells@[1].layout is Some, g.cells@[1].layout->0.instances@.len() == 1,
    ensures false {}
proof fn canary_lib_exp(g: tproto::Library, lib: Library) requires lib_exp(g, lib), lib.cells@.len() == 2, g.cells@[1].layout is Some ensures false {}
proof fn canary_lib_imp(lib: Library, plib: tproto::Library, m0: CellMap, m1: CellMap) requires lib_imp(lib, plib, m0, m1), plib.cells@.len() == 2, plib.cells@[1].layout is Some ensures false {}
proof fn canary_dims(v: Seq<i64>, p: Seq<PrimPitches>) requires dims_eq(v, p), p.len() == 2 ensures false {}
}
fn main() {}
