// Unit U12b tetris_proto: layout21tetris <-> vlsir tetris protobuf leaf converters (C19).
use vstd::prelude::*;
use std::convert::{TryFrom, TryInto};
verus! {
global size_of usize == 8;
//@ include units/common/float.inc.rs
//@ item layout21tetris/src/coords.rs :: type Int
//@ end
//@ include units/tetris_place/coords.inc.rs
impl vstd::std_specs::convert::FromSpecImpl<std::num::TryFromIntError> for LayoutError {
    open spec fn obeys_from_spec() -> bool { true }
    open spec fn from_spec(e: std::num::TryFromIntError) -> LayoutError { LayoutError { } }
}
impl From<std::num::TryFromIntError> for LayoutError { fn from(e: std::num::TryFromIntError) -> Self { LayoutError { } } }
impl PrimPitches {
//@ fn layout21tetris/src/coords.rs :: impl PrimPitches :: fn x
//@   ret r
//@   spec
//|     ensures r.dir == Dir::Horiz, r.num == num,
//@ end
//@ fn layout21tetris/src/coords.rs :: impl PrimPitches :: fn y
//@   ret r
//@   spec
//|     ensures r.dir == Dir::Vert, r.num == num,
//@ end
}
/// stand-ins for the prost-generated vlsir message structs (field names and types copied from vlsir.tetris.rs / vlsir.raw.rs / vlsir.utils.rs)
pub mod rawproto {
    #[derive(Debug, Clone, Copy)]
    pub struct Point { pub x: i64, pub y: i64 }
    impl Point { pub fn new(x: i64, y: i64) -> (r: Self) ensures r.x == x, r.y == y { Self { x, y } } }
}
pub mod proto {
    pub mod utils {
        pub struct QualifiedName { pub domain: String, pub name: String }
        pub mod reference { pub enum To { Local(String), External(super::QualifiedName) } }
        pub struct Reference { pub to: Option<reference::To> }
    }
    pub mod tetris {
        pub struct RelPlace { }
        pub mod place { pub enum Place { Abs(super::super::super::rawproto::Point), Rel(super::RelPlace) } }
        pub struct Place { pub place: Option<place::Place> }
    }
}
pub mod tproto {
    use vstd::prelude::*;
    pub use super::proto::tetris::{place, Place, RelPlace};
    pub struct Outline { pub x: Vec<i64>, pub y: Vec<i64>, pub metals: i64 }
    #[derive(Debug, Clone, Copy)]
    pub struct TrackRef { pub layer: i64, pub track: i64 }
    pub struct TrackCross { pub track: Option<TrackRef>, pub cross: Option<TrackRef> }
    pub struct Assign { pub net: String, pub at: Option<TrackCross> }
    pub struct Instance { pub name: String, pub cell: Option<super::proto::utils::Reference>, pub loc: Option<Place>, pub reflect_horiz: bool, pub reflect_vert: bool }
    // prost messages derive Default: every field its type's default
    impl Default for Outline { fn default() -> (r: Self) ensures r.x@.len() == 0, r.y@.len() == 0, r.metals == 0 { Outline { x: Vec::new(), y: Vec::new(), metals: 0 } } }
    impl Default for TrackRef { fn default() -> (r: Self) ensures r.layer == 0, r.track == 0 { TrackRef { layer: 0, track: 0 } } }
    impl Default for TrackCross { fn default() -> (r: Self) ensures r.track is None, r.cross is None { TrackCross { track: None, cross: None } } }
    impl Default for Assign { fn default() -> (r: Self) ensures r.at is None, r.net@.len() == 0 { Assign { net: String::new(), at: None } } }
    impl Default for Instance { fn default() -> (r: Self) ensures r.cell is None, r.loc is None, !r.reflect_horiz, !r.reflect_vert, r.name@.len() == 0 { Instance { name: String::new(), cell: None, loc: None, reflect_horiz: false, reflect_vert: false } } }
}
//@ item layout21tetris/src/tracks.rs :: struct TrackRef
//@   derive Debug, Clone, Copy
//@ end
//@ item layout21tetris/src/tracks.rs :: struct TrackCross
//@   derive Debug, Clone, Copy
//@ end
impl TrackCross {
//@ fn layout21tetris/src/tracks.rs :: impl TrackCross :: fn new
//@   ret r
//@   spec
//|     ensures r.track == track, r.cross == cross,
//@ end
}
//@ item layout21utils/src/context.rs :: enum ErrorContext
//@ end
impl<T: HasUnits> Xy<T> {
//@ fn layout21tetris/src/coords.rs :: impl<T: HasUnits> Xy<T> :: fn raw
//@   ret r
//@   spec
//|     ensures r.x == self.x.raw_spec(), r.y == self.y.raw_spec(),
//@ end
}

// =====================================================================================================
// EXPORTER (layout21tetris/src/conv/proto.rs)
// =====================================================================================================
//@ item layout21tetris/src/conv/proto.rs :: struct ProtoExporter
//@   sub R5 /ProtoExporter<'lib>/ => ProtoExporter
//@   sub R5 /lib: &'lib Library,[^\n]*/ =>
//@   sub R4 /\n    ctx:/ => \n    pub ctx:
//@ end
pub open spec fn dims_eq(v: Seq<i64>, p: Seq<PrimPitches>) -> bool { v.len() == p.len() && forall|i: int| 0 <= i < p.len() ==> #[trigger] v[i] == p[i].num }
impl ProtoExporter {
//@ fn layout21tetris/src/conv/proto.rs :: impl<'lib> ProtoExporter<'lib> :: fn export_track_ref
//@   ret r
//@   spec
//|     ensures r is Ok ==> r->Ok_0.layer == track.layer && r->Ok_0.track == track.track,
//@ end
//@ fn layout21tetris/src/conv/proto.rs :: impl<'lib> ProtoExporter<'lib> :: fn export_track_cross
//@   ret r
//@   spec
//|     ensures r is Ok ==> r->Ok_0.track is Some && r->Ok_0.cross is Some
//|         && r->Ok_0.track->0.layer == cross.track.layer && r->Ok_0.track->0.track == cross.track.track
//|         && r->Ok_0.cross->0.layer == cross.cross.layer && r->Ok_0.cross->0.track == cross.cross.track,
//@ end
//@ fn layout21tetris/src/conv/proto.rs :: impl<'lib> ProtoExporter<'lib> :: fn export_dimension
//@   ret r
//@   spec
//|     ensures r is Ok ==> r->Ok_0 == p.raw_spec(),
//@ end
//@ fn layout21tetris/src/conv/proto.rs :: impl<'lib> ProtoExporter<'lib> :: fn export_dimensions
//@   ret r
//@   let rv : Vec<i64>
//@   spec
//|     ensures r is Ok ==> r->Ok_0@.len() == p@.len() && forall|i: int| 0 <= i < p@.len() ==> #[trigger] r->Ok_0@[i] == p@[i].raw_spec(),
//@   loop 1 iter it
//|             invariant rv@.len() == it.index@, forall|i: int| 0 <= i < it.index@ ==> #[trigger] rv@[i] == p@[i].raw_spec(),
//@ end
//@ fn layout21tetris/src/conv/proto.rs :: impl<'lib> ProtoExporter<'lib> :: fn export_point
//@   ret r
//@   spec
//|     ensures r is Ok ==> r->Ok_0.x == p.x.raw_spec() && r->Ok_0.y == p.y.raw_spec(),
//@ end
//@ fn layout21tetris/src/conv/proto.rs :: impl<'lib> ProtoExporter<'lib> :: fn export_instance
//@   ret r
//@   spec
//|     ensures r is Ok ==> ({
//|         let g = r->Ok_0;
//|         &&& g.name@ == inst.inst_name@ &&& g.reflect_vert == inst.reflect_vert &&& g.reflect_horiz == inst.reflect_horiz
//|         &&& inst.loc is Abs && g.loc is Some && g.loc->0.place is Some && g.loc->0.place->0 is Abs
//|         &&& g.loc->0.place->0->Abs_0.x == inst.loc->Abs_0.x.num && g.loc->0.place->0->Abs_0.y == inst.loc->Abs_0.y.num
//|         &&& g.cell is Some && g.cell->0.to is Some && g.cell->0.to->0 is Local && g.cell->0.to->0->Local_0@ == (*inst.cell.v).name@
//|     }),
//@ end
//@ fn layout21tetris/src/conv/proto.rs :: impl<'lib> ProtoExporter<'lib> :: fn export_outline
//@   ret r
//@   spec
//|     ensures r is Ok ==> dims_eq(r->Ok_0.x@, outline.x@) && dims_eq(r->Ok_0.y@, outline.y@) && r->Ok_0.metals == metals,
//@ end
}

// =====================================================================================================
// IMPORTER
// =====================================================================================================
pub struct Cell { pub name: String }
pub struct CellMap { pub m: Vec<Ptr<Cell>> }
impl CellMap {
    pub uninterp spec fn lookup(&self, k: Seq<char>) -> Option<Ptr<Cell>>;
    #[verifier::external_body]
    pub fn get(&self, k: &String) -> (r: Option<&Ptr<Cell>>)
        ensures (r is Some) == (self.lookup(k@) is Some), r is Some ==> *r->0 == self.lookup(k@)->0,
    { unimplemented!() }
}
impl<T> Clone for Ptr<T> { #[verifier::external_body] fn clone(&self) -> (r: Self) ensures r == *self { unimplemented!() } }
impl<T> Ptr<T> { #[verifier::external_body] pub fn new(v: T) -> (r: Self) ensures *r.v == v { Ptr { v: Box::new(v) } } }
pub struct ArrayInstance { pub name: String }
pub struct GroupInstance { pub name: String }
pub struct RelAssign { pub net: String }
//@ item layout21tetris/src/placement.rs :: enum Align
//@ end
//@ item layout21tetris/src/placement.rs :: enum SepBy
//@ end
//@ item layout21tetris/src/placement.rs :: struct Separation
//@ end
//@ item layout21tetris/src/placement.rs :: enum Placeable
//@ end
//@ item layout21tetris/src/placement.rs :: struct RelativePlace
//@ end
//@ item layout21tetris/src/placement.rs :: enum Place
//@ end
//@ item layout21tetris/src/instance.rs :: struct Instance
//@ end
impl<T> Place<T> {
//@ fn layout21tetris/src/placement.rs :: impl<T> Place<T> :: fn abs
//@   ret r
//@   spec
//|     ensures r is Ok <==> *self is Abs, r is Ok ==> *r->Ok_0 == self->Abs_0,
//@ end
}
//@ item layout21tetris/src/conv/proto.rs :: struct ProtoLibImporter
//@   sub R5 /cell_map: HashMap<String, Ptr<Cell>>,[^\n]*/ => pub cell_map: CellMap,
//@   sub R4 /\n    ctx: Vec<ErrorContext>,[^\n]*/ => \n    pub ctx: Vec<ErrorContext>,
//@ end
impl ProtoLibImporter {
    #[verifier::external_body]
    fn fail<T, M>(&self, msg: M) -> (r: LayoutResult<T>) ensures r is Err { Err(LayoutError { }) }
    /// model of ErrorHelper::unwrap (Some(v) => Ok(v), None => self.fail(msg))
    #[verifier::external_body]
    fn unwrap<T, M>(&self, opt: Option<T>, msg: M) -> (r: LayoutResult<T>)
        ensures opt is Some ==> r == Ok::<T, LayoutError>(opt->0), opt is None ==> r is Err,
    { unimplemented!() }
//@ fn layout21tetris/src/conv/proto.rs :: impl ProtoLibImporter :: fn import_reference
//@   ret r
//@   sub R5 /let cellname: &str = match pref_to/ => let cellname: &String = match pref_to
//@   spec
//|     ensures final(self).cell_map == old(self).cell_map,
//|         r is Ok ==> pinst.cell is Some && pinst.cell->0.to is Some && pinst.cell->0.to->0 is Local
//|             && old(self).cell_map.lookup(pinst.cell->0.to->0->Local_0@) == Some(r->Ok_0),
//|         // a reference to an undefined cell, an external or a missing reference is an error, not a crash
//|         (pinst.cell is None || pinst.cell->0.to is None || pinst.cell->0.to->0 is External
//|             || old(self).cell_map.lookup(pinst.cell->0.to->0->Local_0@) is None) ==> r is Err,
//@ end
//@ fn layout21tetris/src/conv/proto.rs :: impl ProtoLibImporter :: fn import_instance
//@   ret r
//@   sub R7 /ErrorContext::Instance\(inst_name\.clone\(\)\)/ => ErrorContext::Instance(String::new())
//@   spec
//|     ensures r is Ok ==> ({
//|         let i = *r->Ok_0.v;
//|         &&& i.inst_name@ == pinst.name@ &&& i.reflect_horiz == pinst.reflect_horiz &&& i.reflect_vert == pinst.reflect_vert
//|         &&& pinst.loc is Some && pinst.loc->0.place is Some && pinst.loc->0.place->0 is Abs
//|         &&& i.loc is Abs && i.loc->Abs_0.x.num == pinst.loc->0.place->0->Abs_0.x && i.loc->Abs_0.y.num == pinst.loc->0.place->0->Abs_0.y
//|         &&& i.loc->Abs_0.x.dir == Dir::Horiz && i.loc->Abs_0.y.dir == Dir::Vert
//|         &&& pinst.cell is Some && pinst.cell->0.to is Some && pinst.cell->0.to->0 is Local && old(self).cell_map.lookup(pinst.cell->0.to->0->Local_0@) == Some(i.cell)
//|     }),
//|         // no location, or a relative placement, is an error rather than a crash
//|         (pinst.loc is None || pinst.loc->0.place is None || pinst.loc->0.place->0 is Rel) ==> r is Err,
//@ end
//@ fn layout21tetris/src/conv/proto.rs :: impl ProtoLibImporter :: fn import_track_ref
//@   ret r
//@   spec
//|     ensures r is Ok <==> (pref.layer >= 0 && pref.track >= 0), r is Ok ==> r->Ok_0.layer == pref.layer && r->Ok_0.track == pref.track,
//@ end
//@ fn layout21tetris/src/conv/proto.rs :: impl ProtoLibImporter :: fn import_track_cross
//@   ret r
//@   spec
//|     ensures r is Ok ==> pcross.track is Some && pcross.cross is Some
//|         && r->Ok_0.track.layer == pcross.track->0.layer && r->Ok_0.track.track == pcross.track->0.track
//|         && r->Ok_0.cross.layer == pcross.cross->0.layer && r->Ok_0.cross.track == pcross.cross->0.track,
//|         // a missing sub-message is an error, not a crash
//|         (pcross.track is None || pcross.cross is None) ==> r is Err,
//@ end
//@ fn layout21tetris/src/conv/proto.rs :: impl ProtoLibImporter :: fn import_prim_pitches
//@   ret r
//@   spec
//|     ensures r is Ok ==> r->Ok_0.dir == dir && r->Ok_0.num == pt,
//@ end
//@ fn layout21tetris/src/conv/proto.rs :: impl ProtoLibImporter :: fn import_prim_pitches_list
//@   ret r
//@   let rv : Vec<PrimPitches>
//@   spec
//|     ensures r is Ok ==> dims_eq(pts@, r->Ok_0@) && forall|i: int| 0 <= i < pts@.len() ==> (#[trigger] r->Ok_0@[i]).dir == dir,
//@   loop 1 iter it
//|             invariant rv@.len() == it.index@, forall|i: int| 0 <= i < it.index@ ==> (#[trigger] rv@[i]).num == pts@[i] && rv@[i].dir == dir,
//@ end
//@ fn layout21tetris/src/conv/proto.rs :: impl ProtoLibImporter :: fn import_xy_prim_pitches
//@   ret r
//@   spec
//|     ensures r is Ok ==> r->Ok_0.x.dir == Dir::Horiz && r->Ok_0.y.dir == Dir::Vert && r->Ok_0.x.num == pt.x && r->Ok_0.y.num == pt.y,
//@ end
//@ fn layout21tetris/src/conv/proto.rs :: impl ProtoLibImporter :: fn import_outline
//@   ret r
//@   spec
//|     ensures r is Ok ==> ({
//|         let (o, m) = r->Ok_0;
//|         // the imported outline has exactly the message's steps, is a valid staircase, and keeps the metal count
//|         &&& dims_eq(poutline.x@, o.x@) &&& dims_eq(poutline.y@, o.y@) &&& outline_valid(o.x@, o.y@) &&& m == poutline.metals
//|     }),
//|         // an invalid outline (lengths differ, empty, negative, wrong monotonicity) is an error
//|         (poutline.x@.len() != poutline.y@.len() || poutline.x@.len() == 0 || poutline.metals < 0) ==> r is Err,
//@ end
}
proof fn canary_dims(v: Seq<i64>, p: Seq<PrimPitches>) requires dims_eq(v, p), p.len() == 2 ensures false {}
}
fn main() {}
