// Unit U10d order_impls: the implementors of layout21utils::DepOrder — PlaceOrder (placer), CellOrder (tetris protobuf exporter) (C09, C17, C19).
use vstd::prelude::*;
use vstd::std_specs::hash::*;
use std::collections::HashSet;
use std::marker::PhantomData;
verus! {
//@ include units/common/float.inc.rs
//@ include units/dep_order/spec.inc.rs

// =====================================================================================================
// MODELS (rule R5)
// =====================================================================================================
#[derive(Debug)]
pub struct LayoutError { }
pub type LayoutResult<T> = Result<T, LayoutError>;
impl LayoutError {
    #[verifier::external_body]
    pub fn fail<T, M>(msg: M) -> (r: Result<T, LayoutError>) ensures r is Err { Err(LayoutError { }) }
    #[verifier::external_body]
    pub fn msg<M>(msg: M) -> (r: LayoutError) { LayoutError { } }
}
/// model of layout21utils::Ptr<T>: a handle with pointer identity and an uninterpreted pointee (any graph)
pub struct Ptr<T> { pub id: usize, pub _p: core::marker::PhantomData<T> }
} // verus!
impl<T> PartialEq for Ptr<T> { fn eq(&self, other: &Self) -> bool { self.id == other.id } }
impl<T> Eq for Ptr<T> { }
impl<T> std::hash::Hash for Ptr<T> { fn hash<H: std::hash::Hasher>(&self, state: &mut H) { self.id.hash(state) } }
verus! {
pub uninterp spec fn pointee<T>(p: Ptr<T>) -> T;
impl<T> Ptr<T> {
    /// `read()`: the pointee, or a lock-poison error
    #[verifier::external_body]
    pub fn read(&self) -> (r: LayoutResult<&T>) ensures r is Ok ==> *r->Ok_0 == pointee(*self) { unimplemented!() }
}
impl<T> Clone for Ptr<T> { #[verifier::external_body] fn clone(&self) -> (r: Self) ensures r == *self { unimplemented!() } }

// ---- CellOrder (layout21tetris/src/conv/proto.rs) ----
/// R5: the tetris data model reduced to the fields the orderer reads; PtrList<T> as Vec<Ptr<T>>
pub struct Instance { pub cell: Ptr<Cell> }
pub struct Layout { pub instances: Vec<Ptr<Instance>> }
/// the other views of a cell are opaque here (present so that a change that consults them is expressible — seeded change C19-cellorder-abstract-early-return)
pub struct Abstract { pub name: String }
pub struct RawLayoutPtr { pub id: u64 }
pub struct Cell { pub name: String, pub abs: Option<Abstract>, pub layout: Option<Layout>, pub raw: Option<RawLayoutPtr> }
pub open spec fn cell_dep_seq(l: Layout) -> Seq<Ptr<Cell>> { Seq::new(l.instances@.len(), |i: int| pointee(l.instances@[i]).cell) }
pub open spec fn cell_deps(item: Ptr<Cell>) -> Set<Ptr<Cell>> { match pointee(item).layout { Some(l) => cell_dep_seq(l).to_set(), None => Set::empty() } }
/// R5/R9: `DepOrderer<CellOrder>` as a concrete struct whose `push` carries, as an ASSUMED contract, exactly the contract proved for the
/// generic `DepOrderer<P>::push` in unit dep_order, instantiated at P = CellOrder (Verus rejects the direct impl: the trait method calls
/// DepOrderer::push, which calls the trait method — "cyclic self-reference"; so the implementor is checked modularly against the callee's contract)
pub struct CellOrderer { pub stack: Vec<Ptr<Cell>>, pub seen: HashSet<Ptr<Cell>>, pub pending: HashSet<Ptr<Cell>> }
impl CellOrderer {
    #[verifier::external_body]
    pub fn push(&mut self, item: &Ptr<Cell>) -> (r: Result<(), LayoutError>)
        requires inv_raw(old(self).stack@, old(self).seen@, old(self).pending@, |i: Ptr<Cell>| cell_deps(i)), obeys_key_model::<Ptr<Cell>>(),
        ensures r is Ok ==> (inv_raw(final(self).stack@, final(self).seen@, final(self).pending@, |i: Ptr<Cell>| cell_deps(i))
            && old(self).stack@.is_prefix_of(final(self).stack@)
            && final(self).pending@ == old(self).pending@
            && final(self).seen@.contains(*item)),
            (old(self).pending@.contains(*item) && !old(self).seen@.contains(*item)) ==> r is Err,
    { unimplemented!() }
}
/// `impl DepOrder for CellOrder :: process`, emitted as a free function (R9) and checked against the trait-level contract of `process`
//@ fn layout21tetris/src/conv/proto.rs :: impl DepOrder for CellOrder :: fn process
//@   ret r
//@   sub R9 /fn process\(/ => fn cell_order_process(
//@   sub R5 /orderer: &mut DepOrderer<Self>/ => orderer: &mut CellOrderer
//@   sub R3 /for ptr in layout\.instances\.iter\(\) \{\s*let inst = ptr\.read\(\)\?;/ => for ptr in layout.instances.iter() { let inst = ptr.read()?;
//@   spec
//|         requires inv_raw(old(orderer).stack@, old(orderer).seen@, old(orderer).pending@, |i: Ptr<Cell>| cell_deps(i)),
//|             old(orderer).pending@.contains(*item), obeys_key_model::<Ptr<Cell>>(),
//|         ensures r is Ok ==> (inv_raw(final(orderer).stack@, final(orderer).seen@, final(orderer).pending@, |i: Ptr<Cell>| cell_deps(i))
//|             && old(orderer).stack@.is_prefix_of(final(orderer).stack@)
//|             && final(orderer).pending@ == old(orderer).pending@
//|             && cell_deps(*item).subset_of(final(orderer).seen@))
//@   loop 1 iter it
//|                 invariant obeys_key_model::<Ptr<Cell>>(), *cell == pointee(*item), cell.layout == Some(*layout),
//|                     inv_raw(orderer.stack@, orderer.seen@, orderer.pending@, |i: Ptr<Cell>| cell_deps(i)), old(orderer).stack@.is_prefix_of(orderer.stack@),
//|                     orderer.pending@ == old(orderer).pending@,
//|                     forall|k: int| 0 <= k < it.index@ ==> orderer.seen@.contains(#[trigger] cell_dep_seq(*layout)[k]),
//@   before /orderer\.push\(&inst\.cell\)\?;/
//|                 let ghost before = orderer.stack@;
//|                 proof { assert(cell_dep_seq(*layout)[it.index@ as int] == inst.cell); }
//@   loopend 1
//|                 proof {
//|                     assert forall|k: int| 0 <= k < it.index@ implies orderer.seen@.contains(#[trigger] cell_dep_seq(*layout)[k]) by {
//|                         assert(before.contains(cell_dep_seq(*layout)[k]));
//|                         let idx = choose|q: int| 0 <= q < before.len() && before[q] == cell_dep_seq(*layout)[k];
//|                         assert(orderer.stack@[idx] == cell_dep_seq(*layout)[k]);
//|                         assert(orderer.stack@.contains(cell_dep_seq(*layout)[k]));
//|                     }
//|                 }
//@   before /^        Ok\(\(\)\)$/
//|         proof {
//|             assert forall|q: Ptr<Cell>| cell_deps(*item).contains(q) implies orderer.seen@.contains(q) by {
//|                 match pointee(*item).layout { Some(l) => { let i = choose|i: int| 0 <= i < cell_dep_seq(l).len() && cell_dep_seq(l)[i] == q; assert(orderer.seen@.contains(cell_dep_seq(l)[i])); } None => {} }
//|             }
//|         }
//@ end
// ---- PlaceOrder (layout21tetris/src/placer.rs) ----
pub mod place {
    use vstd::prelude::*;
    use vstd::std_specs::hash::*;
    use std::collections::HashSet;
    use super::{Ptr, pointee, LayoutError, LayoutResult, inv_raw};
    /// R5: the placement data model reduced to the fields the orderer reads: every placeable's location, and what a relative location refers to
    pub struct RelativePlace { pub to: Placeable }
    pub enum Place { Abs, Rel(RelativePlace) }
    pub struct Instance { pub loc: Place }
    pub struct ArrayInstance { pub loc: Place }
    pub struct GroupInstance { pub loc: Place }
    pub struct RelAssign { pub loc: RelativePlace }
//@ item layout21tetris/src/placement.rs :: enum Placeable
//@ end
    pub open spec fn rel_dep(l: Place) -> Set<Placeable> { match l { Place::Rel(rel) => Set::empty().insert(rel.to), Place::Abs => Set::empty() } }
    /// what a placeable must be placed after: the object its relative location refers to (an assignment is always relative)
    pub open spec fn place_deps(item: Placeable) -> Set<Placeable> {
        match item {
            Placeable::Instance(p) => rel_dep(pointee(p).loc),
            Placeable::Array(p) => rel_dep(pointee(p).loc),
            Placeable::Group(p) => rel_dep(pointee(p).loc),
            Placeable::Assign(a) => Set::empty().insert(pointee(a).loc.to),
            Placeable::Port { inst, port } => rel_dep(pointee(inst).loc),
        }
    }
    /// `DepOrderer<PlaceOrder>` with the contract of the generic `push` proved in unit dep_order, instantiated at P = PlaceOrder (ASSUMED here)
    pub struct PlaceOrderer { pub stack: Vec<Placeable>, pub seen: HashSet<Placeable>, pub pending: HashSet<Placeable> }
    impl PlaceOrderer {
        #[verifier::external_body]
        pub fn push(&mut self, item: &Placeable) -> (r: Result<(), LayoutError>)
            requires inv_raw(old(self).stack@, old(self).seen@, old(self).pending@, |i: Placeable| place_deps(i)), obeys_key_model::<Placeable>(),
            ensures r is Ok ==> (inv_raw(final(self).stack@, final(self).seen@, final(self).pending@, |i: Placeable| place_deps(i))
                && old(self).stack@.is_prefix_of(final(self).stack@)
                && final(self).pending@ == old(self).pending@
                && final(self).seen@.contains(*item)),
                (old(self).pending@.contains(*item) && !old(self).seen@.contains(*item)) ==> r is Err,
        { unimplemented!() }
    }
//@ fn layout21tetris/src/placer.rs :: impl DepOrder for PlaceOrder :: fn process
//@   ret r
//@   sub R9 /fn process\(/ => fn place_order_process(
//@   sub R5 /orderer: &mut DepOrderer<Self>/ => orderer: &mut PlaceOrderer
//@   spec
//|         requires inv_raw(old(orderer).stack@, old(orderer).seen@, old(orderer).pending@, |i: Placeable| place_deps(i)),
//|             old(orderer).pending@.contains(*item), obeys_key_model::<Placeable>(),
//|         ensures r is Ok ==> (inv_raw(final(orderer).stack@, final(orderer).seen@, final(orderer).pending@, |i: Placeable| place_deps(i))
//|             && old(orderer).stack@.is_prefix_of(final(orderer).stack@)
//|             && final(orderer).pending@ == old(orderer).pending@
//|             && place_deps(*item).subset_of(final(orderer).seen@))
//@ end
}
proof fn canary_deps(p: Ptr<Cell>) requires cell_deps(p).len() == 1 ensures false {}
}
fn main() {}
