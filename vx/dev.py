#!/usr/bin/env python3
"""development driver: python3 -m vx.dev <unit> [repo]"""
import sys, json
from . import verus_run
r = verus_run.run_unit(sys.argv[1], repo=(sys.argv[2] if len(sys.argv) > 2 else '/repo'))
print('status:', r['status'], '|', r['reason'])
for f in r.get('failures', []) + r.get('unstable', []):
    print('FAIL', f['obligation'], '--', f['message'], '--', f['clause'])
for h in r.get('hard', []):
    print('HARD', h)
print('queries:', len(r['obligations']), 'ok:', sum(1 for o in r['obligations'] if o['ok']), 'canaries:', r['canaries'], 'solver_s', r['solver_s'], 'wall', r.get('verus_wall_s'))
if '-v' in sys.argv:
    print(json.dumps(r['trusted_base'], indent=1)); print(json.dumps(r['extraction_log'], indent=1))
