"""
Assemble a Verus unit from its template (units/<u>/unit.rs) and the *current* /repo working tree.

Template syntax.  Everything is ordinary Verus text except directive blocks made of comment lines:

    //@ fn <relpath> :: <header> :: <header> ...     extract that function (signature + body, byte exact)
    //@   ret <name>                                  R1: name the return value  `-> T` => `-> (name: T)`
    //@   spec                                        R1: payload inserted between signature and body
    //|       requires ..
    //|       ensures ..
    //@   loop <n> [iter <name>]                      R1: payload inserted before the body of the n-th loop (1-based,
    //|       invariant ..                                textual order); `iter` names the ghost iterator of a `for`
    //@   atstart                                     R2: payload (ghost block) inserted at the very start of the body (no anchor needed)
    //@   loopend <n>                                 R2: payload (ghost block) inserted at the end of the n-th loop's body
    //@   loopstart <n>                               R2: ... at the start of the n-th loop's body (no anchor inside the body needed)
    //@   before /<regex>/                            R2: payload inserted before the (single) line matching regex
    //@   after /<regex>/                             R2: ... after that line
    //@   let <name> : <type>                         R3: ascribe a type to `let [mut] name =`
    //@   sub <rule> /<regex>/ => <replacement>       R5..R11: logged textual rewrite, must match at least once
    //@   attr #[verifier::..]                        R1: verifier attribute (rlimit, spinoff_prover) placed before the fn
    //@   nopub                                       drop a leading `pub` (fn moved out of / into a trait impl, R9)
    //@ end
    //@ item <relpath> :: <header> [:: ...]           extract struct/enum/const/type/trait, attributes dropped (R4)
    //@   derive <A, B>                               re-attach these derives (Verus-supported ones only)
    //@   sub <rule> /<regex>/ => <replacement>
    //@ end

Rule R7 (`format!(..)` => `String::new()`, `println!(..);` dropped) and R4 are applied to every extracted text.
The result carries a line map so that each Verus diagnostic can be reported against /repo file:line.
"""
import os
import re, hashlib
from . import extract
from .extract import LostAnchor


class TemplateError(Exception):
    pass


class Chunk:
    __slots__ = ('text', 'origin')

    def __init__(self, text, origin):
        self.text = text
        self.origin = origin      # ('src', relpath, first_line) | ('unit', template_line)


RULES = {'R1', 'R2', 'R3', 'R4', 'R5', 'R6', 'R7', 'R8', 'R9', 'R10', 'R11', 'R12'}


def _read(repo, rel, cache):
    if rel not in cache:
        p = os.path.join(repo, rel)
        if not os.path.exists(p):
            raise LostAnchor('source file missing: %s' % rel)
        with open(p, encoding='utf-8') as f:
            cache[rel] = extract.Source(rel, f.read())
    return cache[rel]


def parse_template(path):
    """-> list of ('text', line_no, text) | ('dir', line_no, kind, relpath, item_path, subs)
    `//@ include <path relative to /verif>` inlines another template (shared between units)"""
    out = []
    with open(path, encoding='utf-8') as f:
        lines = f.read().split('\n')
    i = 0
    while i < len(lines):
        ln = lines[i]
        s = ln.strip()
        if s.startswith('//@ include '):
            inc = os.path.join(os.path.dirname(os.path.dirname(os.path.abspath(__file__))), s[len('//@ include '):].strip())
            out.append(('text', i + 1, '// ---- begin include %s' % s[len('//@ include '):].strip()))
            out.extend(parse_template(inc))
            out.append(('text', i + 1, '// ---- end include'))
            i += 1
            continue
        if s.startswith('//@ pin '):
            m = re.match(r'//@ pin\s+(.*?)\s+@([0-9a-f]{8})\s*$', s)
            if not m:
                raise TemplateError('%s:%d bad pin directive: %r' % (path, i + 1, s))
            segs = [x.strip() for x in m.group(1).split(' :: ')]
            out.append(('pin', i + 1, segs[0], segs[1:], m.group(2)))
            out.append(('text', i + 1, '// (pinned: the source text of %s is the text this model was written for)' % ' :: '.join(segs[1:])))
            i += 1
            continue
        if s.startswith('//@ fn ') or s.startswith('//@ item '):
            kind = 'fn' if s.startswith('//@ fn ') else 'item'
            spec = s[len('//@ ' + kind):].strip()
            segs = [x.strip() for x in spec.split(' :: ')]
            rel, item_path = segs[0], segs[1:]
            subs = []
            start = i
            i += 1
            while i < len(lines) and lines[i].strip() != '//@ end':
                t = lines[i].strip()
                if t.startswith('//@'):
                    subs.append([i + 1, t[3:].strip(), []])
                elif t.startswith('//|'):
                    if not subs:
                        raise TemplateError('%s:%d payload without directive' % (path, i + 1))
                    raw = lines[i]
                    subs[-1][2].append(raw[raw.index('//|') + 3:])
                elif t == '' or t.startswith('//'):
                    pass
                else:
                    raise TemplateError('%s:%d unexpected text inside directive block: %r' % (path, i + 1, t))
                i += 1
            if i >= len(lines):
                raise TemplateError('%s:%d directive block not closed' % (path, start + 1))
            out.append(('dir', start + 1, kind, rel, item_path, subs))
            i += 1
        else:
            out.append(('text', i + 1, ln))
            i += 1
    return out


def strip_attrs(text, msk):
    """R4: drop `#[..]` / `#![..]` attributes.  Returns (text, msk) with attributes blanked to spaces
    (same length: line numbers are preserved)."""
    t = list(text)
    i = 0
    n = 0
    while True:
        j = msk.find('#', i)
        if j < 0:
            break
        k = j + 1
        if k < len(msk) and msk[k] == '!':
            k += 1
        if k < len(msk) and msk[k] == '[':
            e = extract.match_close(msk, k)
            for q in range(j, e + 1):
                if t[q] != '\n':
                    t[q] = ' '
            n += 1
            i = e + 1
        else:
            i = j + 1
    text2 = ''.join(t)
    return text2, extract.mask(text2), n


MACRO_R7 = re.compile(r'\b(format|println|eprintln|print|dbg)!\s*\(')


def rule_r7(text, msk):
    """R7: error-message construction `format!(..)` => `String::new()`;  `println!(..)` => `()`."""
    edits = []
    for m in MACRO_R7.finditer(msk):
        op = m.end() - 1
        cl = extract.match_close(msk, op)
        nl = text.count('\n', m.start(), cl + 1)
        rep = 'String::new()' if m.group(1) == 'format' else '()'
        edits.append((m.start(), cl + 1, rep + '\n' * nl))
    # nested macros: keep outermost only
    edits.sort()
    res, last = [], -1
    for e in edits:
        if e[0] >= last:
            res.append(e)
            last = e[1]
    for a, b, r in reversed(res):
        text = text[:a] + r + text[b:]
    return text, len(res)


def _regex_of(arg):
    m = re.match(r'/(.*)/\s*$', arg)
    if not m:
        raise TemplateError('expected /regex/: %r' % arg)
    return re.compile(m.group(1))


def _find_line(text, rx, what, first=False):
    lines = text.split('\n')
    hits = [k for k, l in enumerate(lines) if rx.search(l)]
    if first and hits:
        hits = hits[:1]
    if len(hits) != 1:
        raise LostAnchor('anchor %s /%s/ matches %d lines' % (what, rx.pattern, len(hits)))
    off = sum(len(l) + 1 for l in lines[:hits[0]])
    return off, off + len(lines[hits[0]]) + 1


def expand_fn(src, item_path, subs, log, tline):
    item = src.find(item_path)
    if item.kw != 'fn':
        raise LostAnchor('%s: %r is not a function' % (src.path, item_path))
    a, b = item.vis_start, item.end
    text = src.text[a:b]
    first_line = src.text.count('\n', 0, a) + 1
    name = ' :: '.join(item_path)
    # R4 / R7 first (length-preserving for R4; R7 keeps line count)
    msk = extract.mask(text)
    text, msk, n4 = strip_attrs(text, msk)
    if n4:
        log.append({'rule': 'R4', 'item': name, 'count': n4, 'what': 'attributes dropped'})
    text, n7 = rule_r7(text, msk)
    if n7:
        log.append({'rule': 'R7', 'item': name, 'count': n7, 'what': 'format!/println! replaced'})
    # sub rules (textual, logged) come next so that anchors see the rewritten text
    for (ln, d, payload) in subs:
        if d.startswith('sub '):
            m = re.match(r'sub\s+(R\d+)(\?)?(?:\s+@([0-9a-f]{8}))?\s+/(.*)/\s*=>\s?(.*)$', d)
            if not m or m.group(1) not in RULES:
                raise TemplateError('bad sub directive at template line %d: %r' % (ln, d))
            rx = re.compile(m.group(4), re.S)
            rep = m.group(5)
            if payload:
                rep = '\n'.join(payload)
            if m.group(3):
                # pinned rewrite: the text a wildcard pattern swallows is replaced by a model, so it must be EXACTLY the text the model was
                # written for — its digest is recorded in the template; any edit inside it loses the anchor (undecided), never passes silently
                hits = [mm.group(0) for mm in rx.finditer(text)]
                dig = hashlib.sha1('\x00'.join(hits).encode('utf-8')).hexdigest()[:8]
                if hits and dig != m.group(3):
                    raise LostAnchor('sub %s /%s/ in %s: the rewritten text changed (digest %s, template pins %s)' % (m.group(1), m.group(4)[:60], name, dig, m.group(3)))
            new, cnt = rx.subn(rep, text)
            if cnt == 0 and not m.group(2):
                raise LostAnchor('sub %s /%s/ in %s: no match' % (m.group(1), m.group(4), name))
            if new.count('\n') != text.count('\n'):
                # keep the line count stable so the line map stays exact: pad or refuse
                diff = text.count('\n') - new.count('\n')
                if diff < 0:
                    raise TemplateError('sub at template line %d adds lines; use before/after payloads' % ln)
            text = new
            log.append({'rule': m.group(1), 'item': name, 'count': cnt, 'what': 'sub /%s/ => %s' % (m.group(4), rep[:80])})
        elif d.startswith('let '):
            m = re.match(r'let\s+(\w+)\s*:\s*(.*)$', d)
            rx = re.compile(r'\blet\s+(mut\s+)?' + re.escape(m.group(1)) + r'\s*=')
            new, cnt = rx.subn(lambda mm: 'let %s%s: %s =' % (mm.group(1) or '', m.group(1), m.group(2)), text)
            if cnt != 1:
                raise LostAnchor('let %s in %s: %d matches' % (m.group(1), name, cnt))
            text = new
            log.append({'rule': 'R3', 'item': name, 'count': 1, 'what': d})
    msk = extract.mask(text)
    # locate signature / body in the (rewritten) text
    its = extract.items_in(text, msk, 0, len(text))
    if len(its) != 1 or its[0].kw != 'fn':
        raise LostAnchor('%s: cannot re-parse after rules' % name)
    it = its[0]
    edits = []     # (offset, delete_len, text, template_line)
    body_off = it.hdr_end
    body_msk = msk[body_off:it.end]
    loops = extract.loops_in(body_msk) if it.has_body else []
    for (ln, d, payload) in subs:
        ptxt = '\n'.join(payload)
        if d == 'nopub':
            if it.vis_start != it.start:
                edits.append((it.vis_start, it.start - it.vis_start, '', ln))
        elif d.startswith('attr '):
            # verifier attribute (solver budget / isolation); no effect on the code
            edits.append((it.vis_start, 0, d[5:].strip() + ' ', ln))
            log.append({'rule': 'R1', 'item': name, 'what': 'verifier attribute ' + d[5:].strip()})
        elif d.startswith('ret '):
            nm = d[4:].strip()
            sig = msk[it.start:it.hdr_end]
            k = _top_level_arrow(sig)
            if k < 0:
                raise LostAnchor('%s: no return type to name' % name)
            # return type runs to `where` or end of sig
            rest = sig[k + 2:]
            mw = re.search(r'\bwhere\b', rest)
            tend = k + 2 + (mw.start() if mw else len(rest))
            ty = text[it.start + k + 2: it.start + tend]
            edits.append((it.start + k + 2, tend - (k + 2), ' (%s: %s)%s' % (nm, ty.strip(), '\n' * ty.count('\n') + ' '), ln))
            log.append({'rule': 'R1', 'item': name, 'what': 'return value named %s' % nm})
        elif d == 'spec':
            edits.append((it.hdr_end, 0, '\n' + ptxt + '\n', ln))
            log.append({'rule': 'R1', 'item': name, 'what': 'contract inserted (%d lines)' % len(payload)})
        elif d.startswith('loop '):
            m = re.match(r'loop\s+(\d+)(\s+iter\s+(\w+))?$', d)
            if not m:
                raise TemplateError('bad loop directive at template line %d' % ln)
            n = int(m.group(1))
            if n > len(loops):
                raise LostAnchor('%s: loop %d not found (%d loops)' % (name, n, len(loops)))
            kw_off, brace_off, kw = loops[n - 1]
            if m.group(3):
                if kw != 'for':
                    raise LostAnchor('%s: loop %d is not a for loop' % (name, n))
                hdr = body_msk[kw_off:brace_off]
                mi = re.search(r'\bin\b', hdr)
                edits.append((body_off + kw_off + mi.end(), 0, ' %s:' % m.group(3), ln))
            edits.append((body_off + brace_off, 0, '\n' + ptxt + '\n', ln))
            log.append({'rule': 'R1', 'item': name, 'what': 'loop %d invariant inserted (%d lines)' % (n, len(payload))})
        elif d.startswith('loopend '):
            n = int(d.split()[1])
            if n > len(loops):
                raise LostAnchor('%s: loop %d not found (%d loops)' % (name, n, len(loops)))
            kw_off, brace_off, kw = loops[n - 1]
            close = extract.match_close(body_msk, brace_off)
            # insert at the start of the line holding the closing brace when that line holds nothing else
            ls = body_msk.rfind('\n', 0, close) + 1
            at = ls if body_msk[ls:close].strip() == '' else close
            edits.append((body_off + at, 0, ptxt + '\n', ln))
            log.append({'rule': 'R2', 'item': name, 'what': 'ghost block at end of loop %d body (%d lines)' % (n, len(payload))})
        elif d.startswith('loopstart '):
            n = int(d.split()[1])
            if n > len(loops):
                raise LostAnchor('%s: loop %d not found (%d loops)' % (name, n, len(loops)))
            kw_off, brace_off, kw = loops[n - 1]
            edits.append((body_off + brace_off + 1, 0, '\n' + ptxt, ln))
            log.append({'rule': 'R2', 'item': name, 'what': 'ghost block at start of loop %d body (%d lines)' % (n, len(payload))})
        elif d == 'atstart':
            # ghost block right after the opening brace of the body: needs no anchor inside the body
            edits.append((it.hdr_end + 1, 0, '\n' + ptxt + '\n', ln))
            log.append({'rule': 'R2', 'item': name, 'what': 'ghost block at function start (%d lines)' % len(payload)})
        elif d.startswith('before ') or d.startswith('after ') or d.startswith('before1 ') or d.startswith('after1 '):
            # `before1` / `after1`: the FIRST matching line (lets an anchor list alternatives: /line A|line B/ picks A, or B when A is gone)
            w, arg = d.split(' ', 1)
            rx = _regex_of(arg)
            first = w.endswith('1')
            w = w.rstrip('1')
            s, e = _find_line(text, rx, 'in ' + name, first=first)
            edits.append(((s if w == 'before' else e), 0, ptxt + '\n', ln))
            log.append({'rule': 'R2', 'item': name, 'what': '%s /%s/: ghost block (%d lines)' % (w, rx.pattern, len(payload))})
        elif d.startswith('sub ') or d.startswith('let '):
            pass
        else:
            raise TemplateError('unknown directive at template line %d: %r' % (ln, d))
    edits.sort(key=lambda e: (e[0], e[3]))
    chunks = []
    pos = 0
    for off, dl, ins, ln in edits:
        if off < pos:
            raise TemplateError('overlapping edits in %s' % name)
        if off > pos:
            chunks.append(Chunk(text[pos:off], ('src', src.path, first_line + text.count('\n', 0, pos))))
        if ins:
            chunks.append(Chunk(ins, ('unit', ln)))
        pos = off + dl
    chunks.append(Chunk(text[pos:], ('src', src.path, first_line + text.count('\n', 0, pos))))
    chunks.append(Chunk('\n', ('unit', tline)))
    return chunks, {'item': name, 'file': src.path, 'line': first_line, 'kind': 'fn'}


def _top_level_arrow(sig):
    depth = 0
    i = 0
    while i < len(sig) - 1:
        ch = sig[i]
        if ch in '([':
            depth += 1
        elif ch in ')]':
            depth -= 1
        elif ch == '-' and sig[i + 1] == '>' and depth == 0:
            return i
        i += 1
    return -1


def expand_item(src, item_path, subs, log, tline):
    item = src.find(item_path)
    a, b = item.vis_start, item.end
    text = src.text[a:b]
    first_line = src.text.count('\n', 0, a) + 1
    name = ' :: '.join(item_path)
    msk = extract.mask(text)
    text, msk, n4 = strip_attrs(text, msk)
    log.append({'rule': 'R4', 'item': name, 'count': n4, 'what': 'attributes/derives dropped'})
    text, n7 = rule_r7(text, msk)
    pre = ''
    for (ln, d, payload) in subs:
        if d.startswith('derive '):
            pre += '#[derive(%s)] ' % d[7:].strip()
            log.append({'rule': 'R4', 'item': name, 'what': 're-attached derive(%s)' % d[7:].strip()})
        elif d.startswith('sub '):
            m = re.match(r'sub\s+(R\d+)(\?)?(?:\s+@([0-9a-f]{8}))?\s+/(.*)/\s*=>\s?(.*)$', d)
            if not m or m.group(1) not in RULES:
                raise TemplateError('bad sub directive at template line %d: %r' % (ln, d))
            rx = re.compile(m.group(4), re.S)
            rep = m.group(5)
            if payload:
                rep = '\n'.join(payload)
            if m.group(3):
                # pinned rewrite: the text a wildcard pattern swallows is replaced by a model, so it must be EXACTLY the text the model was
                # written for — its digest is recorded in the template; any edit inside it loses the anchor (undecided), never passes silently
                hits = [mm.group(0) for mm in rx.finditer(text)]
                dig = hashlib.sha1('\x00'.join(hits).encode('utf-8')).hexdigest()[:8]
                if hits and dig != m.group(3):
                    raise LostAnchor('sub %s /%s/ in %s: the rewritten text changed (digest %s, template pins %s)' % (m.group(1), m.group(4)[:60], name, dig, m.group(3)))
            new, cnt = rx.subn(rep, text)
            if cnt == 0 and not m.group(2):
                raise LostAnchor('sub %s /%s/ in %s: no match' % (m.group(1), m.group(4), name))
            text = new
            log.append({'rule': m.group(1), 'item': name, 'count': cnt, 'what': 'sub /%s/ => %s' % (m.group(4), rep[:80])})
        elif d == 'pubfields':
            # R4: every named field becomes `pub` (Verus treats a struct with private fields as opaque in contracts)
            text, cnt = re.subn(r'(\n\s+)(?!pub\b)(\w+\s*:\s)', r'\1pub \2', text)
            log.append({'rule': 'R4', 'item': name, 'count': cnt, 'what': 'fields made pub'})
        elif d == 'nopub':
            text = re.sub(r'^pub(\s*\([^)]*\))?\s+', '', text)
        else:
            raise TemplateError('unknown item directive at template line %d: %r' % (ln, d))
    # pub(crate) -> pub
    text = re.sub(r'\bpub\s*\(\s*(crate|super)\s*\)', 'pub', text)
    chunks = [Chunk(pre + text, ('src', src.path, first_line)), Chunk('\n', ('unit', tline))]
    return chunks, {'item': name, 'file': src.path, 'line': first_line, 'kind': item.kw}


def pin_digest(text):
    """digest of a source item with comments dropped and whitespace collapsed (comment / formatting edits do not move it);
    the contents of string and char literals count"""
    msk = extract.mask(text)
    out = []
    in_str = False
    for i, (c, m) in enumerate(zip(text, msk)):
        if m == '"':
            in_str = not in_str
            out.append('"')
        elif c == m:
            out.append(c)
        elif in_str or (i > 0 and text[i - 1] in "'\\" and msk[i - 1] != ' ') or (i > 1 and text[i - 2] == "'" and text[i - 1] == '\\'):
            out.append(c)          # literal content
        else:
            out.append(' ')        # comment
    norm = re.sub(r'\s+', ' ', ''.join(out)).strip()
    return hashlib.sha1(norm.encode('utf-8')).hexdigest()[:8]


def assemble(template_path, repo):
    """-> (text, linemap, log, extracted)   linemap[i] (0-based output line) = origin tuple"""
    cache = {}
    log = []
    extracted = []
    chunks = []
    for ent in parse_template(template_path):
        if ent[0] == 'text':
            chunks.append(Chunk(ent[2] + '\n', ('unit', ent[1])))
        elif ent[0] == 'pin':
            # a function of the repository that the unit replaces by a MODEL with an assumed contract: the model was written for one exact text;
            # if that text changes the assumption is stale, and the unit is undecided (lost anchor) instead of silently passing
            _, tline, rel, item_path, want = ent
            src = _read(repo, rel, cache)
            item = src.find(item_path)
            dig = pin_digest(src.text[item.vis_start:item.end])
            if dig != want:
                raise LostAnchor('pin %s :: %s: the source of a function the unit models (assumed contract) changed (digest %s, template pins %s)'
                                 % (rel, ' :: '.join(item_path), dig, want))
            log.append({'rule': 'PIN', 'item': ' :: '.join(item_path), 'count': 1, 'what': 'modelled function, source text pinned by digest %s' % want})
        else:
            _, tline, kind, rel, item_path, subs = ent
            src = _read(repo, rel, cache)
            if kind == 'fn':
                cs, info = expand_fn(src, item_path, subs, log, tline)
            else:
                cs, info = expand_item(src, item_path, subs, log, tline)
            l0 = sum(c.text.count('\n') for c in chunks) + 1
            chunks.extend(cs)
            l1 = sum(c.text.count('\n') for c in chunks)
            info['out_lines'] = (l0, l1)
            extracted.append(info)
    # build text + line map
    out_lines = []
    linemap = []
    cur = ''
    cur_origin = None
    for ch in chunks:
        parts = ch.text.split('\n')
        for k, p in enumerate(parts):
            if k > 0:
                out_lines.append(cur)
                linemap.append(cur_origin)
                cur, cur_origin = '', None
            if p.strip() and (cur_origin is None or (cur_origin[0] == 'unit' and ch.origin[0] == 'src')):
                if ch.origin[0] == 'src':
                    cur_origin = ('src', ch.origin[1], ch.origin[2] + k)
                else:
                    cur_origin = ch.origin
            cur += p
    if cur:
        out_lines.append(cur)
        linemap.append(cur_origin)
    return '\n'.join(out_lines) + '\n', linemap, log, extracted
