"""
Mechanical extraction of Rust items from /repo sources.

Nothing in here knows anything about Layout21: it masks comments / string / char literals so that
brace matching is reliable, finds items by a *path* of headers (``impl ShapeTrait for Polygon :: fn contains``)
and returns byte-exact source slices with their line numbers.  All rewriting is done by rules.py.
"""
import re


class LostAnchor(Exception):
    """An item, loop or anchor named by a unit could not be found (or is ambiguous) in the current tree."""


def mask(src):
    """Return a string of the same length as `src` in which the *contents* of comments, string literals
    and char literals are replaced by spaces (newlines kept).  Delimiters of strings are kept as '"'."""
    out = list(src)
    i, n = 0, len(src)

    def blank(a, b):
        for k in range(a, b):
            if out[k] != '\n':
                out[k] = ' '

    while i < n:
        c = src[i]
        if c == '/' and i + 1 < n and src[i + 1] == '/':
            j = src.find('\n', i)
            if j < 0:
                j = n
            blank(i, j)
            i = j
        elif c == '/' and i + 1 < n and src[i + 1] == '*':
            depth, j = 1, i + 2
            while j < n and depth:
                if src.startswith('/*', j):
                    depth += 1
                    j += 2
                elif src.startswith('*/', j):
                    depth -= 1
                    j += 2
                else:
                    j += 1
            blank(i, j)
            i = j
        elif c == '"' or (c == 'b' and i + 1 < n and src[i + 1] == '"' and not _ident_before(src, i)):
            if c == 'b':
                i += 1
            j = i + 1
            while j < n and src[j] != '"':
                j += 2 if src[j] == '\\' else 1
            blank(i + 1, j)
            i = j + 1
        elif c == 'r' and not _ident_before(src, i) and re.match(r'r#*"', src[i:i + 12]):
            m = re.match(r'r(#*)"', src[i:i + 12])
            hashes = m.group(1)
            start = i + len(m.group(0))
            end = src.find('"' + hashes, start)
            if end < 0:
                end = n
            blank(i, end + 1 + len(hashes))
            out[i] = '"'
            if end < n:
                out[end] = '"'
            i = end + 1 + len(hashes)
        elif c == "'":
            # char literal or lifetime
            if i + 1 < n and src[i + 1] == '\\':
                j = src.find("'", i + 2)
                # '\'' : the quote right after the backslash is escaped
                if j == i + 2:
                    j = src.find("'", i + 3)
                blank(i + 1, j)
                i = j + 1
            elif i + 2 < n and src[i + 2] == "'":
                blank(i + 1, i + 2)
                i += 3
            else:
                # multi-byte char literal like 'é' (one char, python str is unicode so handled above) or lifetime
                i += 1
        else:
            i += 1
    return ''.join(out)


def _ident_before(src, i):
    return i > 0 and (src[i - 1].isalnum() or src[i - 1] == '_')


OPEN = {'{': '}', '(': ')', '[': ']'}
CLOSE = {v: k for k, v in OPEN.items()}


def match_close(msk, i):
    """msk[i] is an opening bracket; return the index of its matching closer."""
    op = msk[i]
    cl = OPEN[op]
    depth = 0
    for j in range(i, len(msk)):
        ch = msk[j]
        if ch == op:
            depth += 1
        elif ch == cl:
            depth -= 1
            if depth == 0:
                return j
    raise LostAnchor('unbalanced %r at offset %d' % (op, i))


ITEM_KW = re.compile(r'\b(impl|fn|struct|enum|trait|const|static|type|mod|macro_rules|union)\b')


def norm(s):
    """Whitespace-insensitive normal form of a header."""
    s = re.sub(r'\s+', ' ', s.strip())
    s = re.sub(r'\s*([<>,:&()\[\];=+])\s*', r'\1', s)
    return s


class Item:
    def __init__(self, src, msk, kw, start, hdr_end, end, vis_start):
        self.src, self.msk = src, msk
        self.kw = kw                # keyword
        self.start = start          # offset of the keyword
        self.vis_start = vis_start  # offset of `pub`/qualifiers if any, else == start
        self.hdr_end = hdr_end      # offset of the '{' / ';' ending the header
        self.end = end              # offset one past the item's last char ('}' or ';')

    @property
    def header(self):
        return self.src[self.start:self.hdr_end]

    @property
    def has_body(self):
        return self.msk[self.hdr_end] == '{'

    @property
    def text(self):
        return self.src[self.vis_start:self.end]

    def line_of(self, off):
        return self.src.count('\n', 0, off) + 1

    def __repr__(self):
        return '<Item %s @%d>' % (norm(self.header)[:50], self.line_of(self.start))


def items_in(src, msk, lo, hi):
    """Yield the items whose keyword sits at brace depth 0 of msk[lo:hi]."""
    i = lo
    res = []
    while i < hi:
        m = ITEM_KW.search(msk, i, hi)
        if not m:
            break
        # skip keywords inside nested brackets: we only ever start scanning at depth 0 and jump over items,
        # but attributes (#[..]) and macro invocations (foo! { .. }) must be jumped too.
        seg = msk[i:m.start()]
        jumped = False
        for k, ch in enumerate(seg):
            if ch in '{([':
                j = match_close(msk, i + k)
                i = j + 1
                jumped = True
                break
        if jumped:
            continue
        kw = m.group(1)
        start = m.start()
        if kw == 'const' and re.match(r'const\s+(unsafe\s+)?(fn)\b', msk[start:start + 40]):
            # `const fn`: treat at the `fn`
            i = start + 5
            continue
        if kw in ('impl',) and _ident_before(msk, start):
            i = m.end()
            continue
        # header end
        j = m.end()
        par = 0
        hdr_end = None
        while j < hi:
            ch = msk[j]
            if ch in '([':
                j = match_close(msk, j)
            elif ch == '<' or ch == '>':
                pass
            elif ch == '{' or ch == ';':
                hdr_end = j
                break
            elif ch == '=' and kw in ('const', 'static', 'type'):
                # initialiser: runs to the ';' at depth 0
                k = j
                while k < hi and msk[k] != ';':
                    if msk[k] in '{([':
                        k = match_close(msk, k)
                    k += 1
                hdr_end = k
                break
            j += 1
        if hdr_end is None:
            break
        if msk[hdr_end] == '{':
            end = match_close(msk, hdr_end) + 1
        else:
            end = hdr_end + 1
        # tuple struct: `struct A(pub X);` handled: '(' jumped, ends at ';'
        # visibility / qualifiers before the keyword
        back = msk[max(lo, start - 60):start]
        mv = re.search(r'((pub(\s*\([^)]*\))?\s+)?((default|unsafe|async|const|extern\s*"\s*")\s+)*)$', back)
        vis_start = start - len(mv.group(1)) if mv else start
        res.append(Item(src, msk, kw, start, hdr_end, end, vis_start))
        i = end
    return res


class Source:
    def __init__(self, path, text):
        self.path = path
        self.text = text
        self.msk = mask(text)

    def find(self, item_path):
        """item_path: list of header prefixes, e.g. ['impl ShapeTrait for Polygon', 'fn contains'].
        Returns the innermost Item.  Raises LostAnchor when missing or ambiguous."""
        lo, hi = 0, len(self.text)
        item = None
        for seg in item_path:
            cands = [it for it in items_in(self.text, self.msk, lo, hi) if header_matches(it, seg)]
            # descend transparently into `mod` blocks? no: name them in the path
            if len(cands) != 1:
                raise LostAnchor('%s: %d items match %r (path %r)' % (self.path, len(cands), seg, item_path))
            item = cands[0]
            if item.has_body:
                lo, hi = item.hdr_end + 1, item.end - 1
        return item


def header_matches(it, seg):
    h = norm(it.header)
    s = norm(seg)
    if not h.startswith(s):
        return False
    rest = h[len(s):]
    if it.kw == 'impl':
        # `impl X` must not match `impl X for Y` nor `impl XY`
        return rest == '' or rest.startswith('where')
    return rest == '' or not (rest[0].isalnum() or rest[0] == '_')


# ---------------------------------------------------------------------------------------------
# function anatomy

LOOP_KW = re.compile(r'\b(for|while|loop)\b')


def fn_parts(item):
    """(signature text, body text incl. braces, body offset in file)"""
    assert item.kw == 'fn' and item.has_body
    return item.src[item.start:item.hdr_end], item.src[item.hdr_end:item.end], item.hdr_end


def loops_in(msk_body):
    """offsets (keyword offset, offset of the '{' opening the loop body) of every loop in a masked fn body, in
    textual order.  `for<'a>` HRTBs and `impl .. for ..` cannot occur at statement level in the bodies we extract;
    a `for` that is followed by `<` is skipped."""
    res = []
    for m in LOOP_KW.finditer(msk_body):
        j = m.end()
        if m.group(1) == 'for' and msk_body[j:j + 1] == '<':
            continue
        # label? irrelevant.  find the first '{' at paren/bracket depth 0
        k = j
        while k < len(msk_body):
            ch = msk_body[k]
            if ch in '([':
                k = match_close(msk_body, k)
            elif ch == '{':
                break
            k += 1
        else:
            raise LostAnchor('loop header without body')
        res.append((m.start(), k, m.group(1)))
    return res
