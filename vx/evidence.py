"""Write /verif/evidence/<id>.json from what a run actually did."""
import json
import os
import subprocess

VERIF = os.path.dirname(os.path.dirname(os.path.abspath(__file__)))


def write(pid, spec, results, tier, seed, wall, nviol, other, known_hits, undecided, scratch=False, belongs=None):
    obligations = []
    functions = []
    trusted = []
    log = []
    cmds = []
    solver_s = 0.0
    bounded = []
    for r in results:
        cmds.append(r.get('checker_cmd', ''))
        solver_s += r.get('solver_s', 0.0)
        for t in r.get('trusted_base', []):
            trusted.append('%s: %s' % (r['unit'], t))
        for e in r.get('extraction_log', []):
            log.append(dict(e, unit=r['unit']))
        for e in r.get('extracted', []):
            functions.append('%s %s (%s:%d) [%s/%s]' % (e['kind'], e['item'], e['file'], e['line'], r['unit'], r['backend']))
        if r['backend'] == 'verus':
            for o in r.get('obligations', []):
                # only the functions this property's claim rests on (checks.json `functions` patterns)
                if belongs and not belongs({'function': o['function']}, r.get('serves', ['*'])):
                    continue
                obligations.append({'name': '%s::%s' % (r['unit'], o['function']), 'backend': 'verus/z3', 'ok': o['ok'],
                                    'mode': o.get('mode'), 'solver_us': o.get('time_us')})
        else:
            for o in r.get('kani_checks', []):
                obligations.append({'name': '%s::%s' % (r['unit'], o['harness']), 'backend': 'kani/cbmc', 'ok': o['ok'],
                                    'checks': o.get('checks'), 'solver_s': o.get('time_s'),
                                    'bound': o.get('bound', 'none (loop-free, full domain)')})
                if o.get('bound'):
                    bounded.append('%s::%s bounded: %s' % (r['unit'], o['harness'], o['bound']))
    failed_names = set()
    for r in results:
        for f in r.get('failures', []):
            failed_names.add(f['obligation'])
    # function queries that fail only because of a listed, open known finding are reported separately:
    # they are neither counted as obligations of the proof nor as discharged
    kf_funcs = set('%s::%s' % (k[1]['obligation'].split('::')[0], k[1]['function']) for k in known_hits)
    kf_obl = [o for o in obligations if (not o['ok']) and o['name'] in kf_funcs]
    obligations = [o for o in obligations if o not in kf_obl]
    n = len(obligations)
    ok = sum(1 for o in obligations if o['ok'])
    cov = {
        'obligations': n,
        'discharged': ok,
        'checker_cmd': ' ; '.join(c for c in cmds if c),
        'trusted_base': sorted(set(trusted)),
        'samples': [o['name'] for o in obligations[:12]] or ['(none)'],
        'explanation': spec.get('explanation', ''),
        'functions_under_contract': functions,
        'obligation_list': obligations,
        'extraction_log': log,
        'solver_time_s': round(solver_s, 3),
        'bounded_standins': bounded,
        'failed_obligations': sorted(failed_names),
        'failures_outside_this_property': [f['obligation'] for f in other],
        'known_findings_hit': [k[0]['what'] for k in known_hits],
        'open_known_finding_obligations': [o['name'] for o in kf_obl],
        'undecided_units': [{'unit': r['unit'], 'reason': r['reason']} for r in undecided],
        'units': [{'unit': r['unit'], 'backend': r['backend'], 'status': r['status'], 'wall_s': round(r.get('wall_s', 0), 2),
                   'canaries': r.get('canaries', {})} for r in results],
        'exhaustive': False,
    }
    if spec.get('level', 'proof') != 'proof':
        # bounded model checking: one evaluation per harness; non-trivial = generated at least one CBMC check and passed
        cov['evaluations'] = n
        cov['distinct_nontrivial'] = sum(1 for o in obligations if o['ok'] and (o.get('checks') or 0) > 0)
        cov['rule'] = 'one evaluation per Kani harness (symbolic over the stated bounded domain); distinct harnesses differ in orientation / depth / bit width; non-trivial = CBMC generated checks and all were discharged'
    ev = {
        'property_id': pid,
        'tier': tier if tier in ('quick', 'thorough') else 'quick',
        'seed': seed,
        'level': spec.get('level', 'proof'),
        'coverage': cov,
        'assumptions': spec.get('assumptions', []) + sorted(set(trusted)),
        'wall_s': round(wall, 2),
        'violations': nviol,
    }
    # runs against a scratch tree (mutants, seeded changes) never touch the committed evidence
    edir = os.path.join(VERIF, 'build', 'evidence-scratch') if scratch else os.path.join(VERIF, 'evidence')
    os.makedirs(edir, exist_ok=True)
    path = os.path.join(edir, pid + '.json')
    with open(path, 'w') as f:
        json.dump(ev, f, indent=1)
    validate(path)
    return path, n, ok


def validate(path):
    schema = '/root/.vp/EVIDENCE.schema.json'
    if not os.path.exists(schema) or not os.path.exists('/opt/veriftools/pyvenv/bin/python'):
        return
    code = ("import json,sys,jsonschema; jsonschema.validate(json.load(open(sys.argv[1])), json.load(open(sys.argv[2])))")
    p = subprocess.run(['/opt/veriftools/pyvenv/bin/python', '-c', code, path, schema], capture_output=True, text=True)
    if p.returncode != 0:
        print('WARNING: evidence file does not validate: ' + p.stderr[-400:])
