"""
Run one Verus unit: assemble from /repo's working tree, call `verus`, map diagnostics to named obligations.
"""
import json
import os
import re
import subprocess
import time

from . import extract
from .assemble import assemble, TemplateError
from .extract import LostAnchor

VERIF = os.path.dirname(os.path.dirname(os.path.abspath(__file__)))
BUILD = os.environ.get('VERIF_BUILD_DIR') or os.path.join(VERIF, 'build')   # override: parallel regression runs (tools/regress_par.py)

# Verus messages that are *verification* failures (an obligation that could not be discharged)
SEMANTIC = [
    (re.compile(r'postcondition not satisfied'), 'postcondition'),
    (re.compile(r'unable to prove post-?condition of closure'), 'postcondition'),
    (re.compile(r'unable to prove pre-?condition of closure'), 'precondition'),
    (re.compile(r'precondition not satisfied'), 'precondition'),
    (re.compile(r'invariant not satisfied at end of loop body'), 'loop-invariant-preserved'),
    (re.compile(r'invariant not satisfied before loop'), 'loop-invariant-entry'),
    (re.compile(r'loop invariant not satisfied'), 'loop-invariant-preserved'),
    (re.compile(r'possible arithmetic underflow/overflow'), 'arith-overflow'),
    (re.compile(r'possible division by zero'), 'division-by-zero'),
    (re.compile(r'possible bit shift underflow/overflow'), 'arith-overflow'),
    (re.compile(r'assertion failed'), 'assertion'),
    (re.compile(r'decreases not satisfied'), 'termination'),
    (re.compile(r'could not prove termination'), 'termination'),
    (re.compile(r'unreachable|panic|unreached'), 'unreachable-panic'),
    (re.compile(r'index out of bounds|array index'), 'index-bounds'),
    (re.compile(r'cannot show .* (well-formed|satisfies)'), 'precondition'),
]
TOOL_LIMIT = re.compile(r'[Rr]esource limit|rlimit|timed out|exceeded')


def fn_ranges(text):
    """[(qualified name, first line, last line)] for every fn in the assembled text (1-based lines)."""
    msk = extract.mask(text)
    res = []

    def walk(lo, hi, prefix):
        for it in extract.items_in(text, msk, lo, hi):
            hdr = extract.norm(it.header)
            if it.kw == 'fn':
                m = re.match(r'fn (\w+)', hdr)
                nm = m.group(1) if m else hdr
                l0 = text.count('\n', 0, it.vis_start) + 1
                l1 = text.count('\n', 0, it.end) + 1
                res.append((prefix + nm, l0, l1))
            elif it.kw in ('impl', 'trait', 'mod') and it.has_body:
                if it.kw == 'impl':
                    m = re.match(r'impl(<.*?>)? ?(.*?)( where .*)?$', hdr)
                    q = m.group(2) if m else hdr
                    q = re.sub(r'^.* for ', '', q) if ' for ' in q else q
                    q = re.sub(r'<.*$', '', q)
                else:
                    q = re.sub(r'<.*$', '', hdr.split(' ', 1)[1])
                    q = q.split(':')[0].strip()
                walk(it.hdr_end + 1, it.end - 1, prefix + q + '::')

    # everything lives inside verus! { .. }
    for m in re.finditer(r'\bverus!\s*\{', msk):
        op = m.end() - 1
        cl = extract.match_close(msk, op)
        walk(op + 1, cl, '')
    return res


def scan_trusted(text):
    """mechanical scan for everything that is assumed rather than proved"""
    msk = extract.mask(text)
    out = []
    lines = text.split('\n')
    mlines = msk.split('\n')
    for i, ml in enumerate(mlines):
        for pat, kind in ((r'#\[verifier::external_body\]', 'external_body'),
                          (r'\bassume_specification\b', 'assume_specification'),
                          (r'\bassume\s*\(', 'assume'),
                          (r'\badmit\s*\(', 'admit'),
                          (r'#\[verifier::external\b', 'external'),
                          (r'#\[verifier::external_type_specification\]', 'external_type_specification'),
                          (r'#\[verifier::external_fn_specification\]', 'external_fn_specification'),
                          (r'\baxiom\s+fn\b', 'axiom')):
            if re.search(pat, ml):
                # describe by the next line that has a `fn`/`struct`/`[` token
                desc = ''
                for j in range(i, min(i + 6, len(lines))):
                    mm = re.search(r'\b(fn\s+[\w:<>]+|struct\s+\w+|enum\s+\w+|\[[^\]]+\])', mlines[j])
                    if mm and not mm.group(0).startswith('[verifier'):
                        desc = re.sub(r'\s+', ' ', lines[j].strip())[:140]
                        break
                if not desc:
                    desc = lines[i].strip()[:140]
                out.append('%s: %s' % (kind, desc))
    return out


def _local(sp):
    """the span (or the macro call site it expands from) inside the assembled unit, else None"""
    seen = 0
    while sp is not None and seen < 8:
        if sp.get('file_name', '').endswith('unit.rs'):
            return sp
        ex = sp.get('expansion')
        sp = ex.get('span') if ex else None
        seen += 1
    return None


def spans_of(d):
    prim, sec = [], []
    for sp in d.get('spans', []):
        loc = _local(sp)
        if loc is None:
            continue
        (prim if sp.get('is_primary') else sec).append(loc)
    return prim, sec


def classify(msg):
    for rx, kind in SEMANTIC:
        if rx.search(msg):
            return kind
    return None


def run_verus(path, rlimit=None, seed=None, threads=16, timeout=1800):
    cmd = ['verus', os.path.basename(path), '--output-json', '--time-expanded', '--error-format=json',
           '--multiple-errors', '8', '--num-threads', str(threads)]
    if rlimit:
        cmd += ['--rlimit', str(rlimit)]
    if seed is not None:
        cmd += ['--smt-option', 'smt.random_seed=%d' % seed]
    t0 = time.time()
    try:
        p = subprocess.run(cmd, cwd=os.path.dirname(path), stdout=subprocess.PIPE, stderr=subprocess.PIPE,
                           timeout=timeout, text=True)
        out, err, rc = p.stdout, p.stderr, p.returncode
    except subprocess.TimeoutExpired as e:
        out, err, rc = (e.stdout or ''), (e.stderr or '') + '\nTIMEOUT', 124
        if isinstance(out, bytes):
            out = out.decode('utf-8', 'replace')
        if isinstance(err, bytes):
            err = err.decode('utf-8', 'replace')
    wall = time.time() - t0
    try:
        js = json.loads(out) if out.strip() else {}
    except json.JSONDecodeError:
        k = out.find('{')
        try:
            js = json.loads(out[k:])
        except Exception:
            js = {}
    diags = []
    for ln in err.split('\n'):
        ln = ln.strip()
        if ln.startswith('{'):
            try:
                d = json.loads(ln)
            except Exception:
                continue
            if d.get('$message_type') == 'diagnostic':
                diags.append(d)
    return {'cmd': ' '.join(cmd), 'rc': rc, 'json': js, 'diags': diags, 'stderr': err, 'wall_s': wall}


def run_unit(unit, repo='/repo', tier='quick', seed=0):
    """-> dict(status=ok|violation|undecided, ...)"""
    udir = os.path.join(VERIF, 'units', unit)
    tpl = os.path.join(udir, 'unit.rs')
    cfg = json.load(open(os.path.join(udir, 'unit.json')))
    res = {'unit': unit, 'backend': 'verus', 'status': 'undecided', 'reason': '', 'failures': [], 'obligations': [],
           'extraction_log': [], 'extracted': [], 'trusted_base': [], 'canaries': {}, 'solver_s': 0.0, 'wall_s': 0.0,
           'cfg': cfg}
    t0 = time.time()
    try:
        text, linemap, log, extracted = assemble(tpl, repo)
    except LostAnchor as e:
        res['reason'] = 'lost anchor: %s' % e
        return res
    except TemplateError as e:
        res['reason'] = 'template error: %s' % e
        return res
    res['extraction_log'] = log
    res['extracted'] = extracted
    bdir = os.path.join(BUILD, unit)
    os.makedirs(bdir, exist_ok=True)
    path = os.path.join(bdir, 'unit.rs')
    with open(path, 'w') as f:
        f.write(text)
    with open(os.path.join(bdir, 'linemap.json'), 'w') as f:
        json.dump(linemap, f)
    res['assembled'] = path
    res['trusted_base'] = scan_trusted(text)
    ranges = fn_ranges(text)
    # extracted functions: exact ranges from the assembler (contracts may contain braces, which defeats the text scan);
    # qualify with the enclosing impl/trait found by the scan
    for e in extracted:
        if e['kind'] == 'fn':
            l0, l1 = e['out_lines']
            segs = e['item'].split(' :: ')
            nm = re.match(r'fn (\w+)', segs[-1]).group(1)
            q = ''
            if len(segs) > 1:
                h = extract.norm(segs[-2])
                h = re.sub(r'^(impl|trait)(<[^>]*>)? ?', '', h)
                h = re.sub(r'^.* for ', '', h)
                q = re.sub(r'<.*$', '', h).split(':')[0].strip() + '::'
            # keep the scan's fully qualified name (it knows enclosing `mod`s) when it names the same function
            full = q + nm
            for r0 in ranges:
                if l0 <= r0[1] <= l1 and (r0[0] == full or r0[0].endswith('::' + full)):
                    full = r0[0]
            ranges = [r for r in ranges if not (l0 <= r[1] <= l1)]
            ranges.append((full, l0, l1))

    def fn_at(line):
        best = None
        for nm, a, b in ranges:
            if a <= line <= b and (best is None or a >= best[1]):
                best = (nm, a, b)
        return best[0] if best else '?'

    def origin(line):
        if 1 <= line <= len(linemap) and linemap[line - 1]:
            o = linemap[line - 1]
            if o[0] == 'src':
                return '%s:%d' % (o[1], o[2])
            return 'units/%s/unit.rs:%d' % (unit, o[1])
        return 'units/%s/unit.rs:?' % unit

    r = run_verus(path, seed=(seed or None) if tier == 'thorough' else None)
    if any(d.get('level') == 'error' and TOOL_LIMIT.search(d.get('message', '')) for d in r['diags']):
        # a function ran out of resources: one more attempt with 6x the default limit before calling it undecided
        r_hi = run_verus(path, rlimit=60, seed=(seed or None) if tier == 'thorough' else None)
        if r_hi['json'].get('times-ms'):
            r = r_hi
            res['rlimit_retry'] = 60
    res['checker_cmd'] = r['cmd']
    res['verus_wall_s'] = r['wall_s']
    js = r['json']
    vr = js.get('verification-results', {})
    # --- front-end errors (type errors, unsupported constructs): tool limit, never an alarm
    hard = []
    hard_items = []
    fails = []
    for d in r['diags']:
        if d.get('level') != 'error':
            continue
        msg = d.get('message', '')
        if msg.startswith('aborting due to'):
            continue
        prim, sec = spans_of(d)
        if not prim and sec:
            # the failed clause lives outside the unit (e.g. the `requires false` of a panic macro in vstd)
            prim = sec
        line = prim[0]['line_start'] if prim else 0
        kind = classify(msg)
        if kind == 'precondition' and prim and prim[0].get('text') and re.search(r'\b(unimplemented|unreachable|panic|todo)!', prim[0]['text'][0].get('text', '')):
            kind = 'unreachable-panic'
        if kind is None or d.get('code'):
            if TOOL_LIMIT.search(msg):
                hard.append('rlimit: %s @%s in %s' % (msg, origin(line), fn_at(line)))
                hard_items.append({'function': fn_at(line), 'message': msg.split('\n')[0][:200], 'site': origin(line)})
            else:
                hard.append('%s @%s' % (msg.split('\n')[0][:300], origin(line)))
            continue
        # which function does the failure belong to?
        #   precondition: primary span = the call site (owner), secondary span "failed precondition" = the callee's clause
        #   postcondition: primary span = the failed ensures clause, secondary = the end of the body (same function)
        owner_line = line
        clause_line = line
        clause_sp = prim[0] if prim else None
        owner_sp = prim[0] if prim else None
        if kind == 'precondition' and sec:
            clause_line = sec[0]['line_start']
            clause_sp = sec[0]
        if kind == 'postcondition' and sec:
            owner_line = sec[0]['line_start']
            owner_sp = sec[0]
        fn = fn_at(owner_line)
        clause = clause_sp['text'][0]['text'].strip() if clause_sp and clause_sp.get('text') else ''
        site = origin(owner_line)
        callee = ''
        if kind == 'precondition':
            callee = fn_at(clause_line) if sec else '?'
            kname = 'precondition-of-%s' % callee if callee != '?' and callee != fn else 'precondition'
        else:
            kname = kind
        site_text = owner_sp['text'][0]['text'].strip()[:200] if owner_sp and owner_sp.get('text') else ''
        line = clause_line
        fails.append({'function': fn, 'kind': kname, 'site': site, 'site_text': site_text, 'clause_at': origin(line), 'clause': clause[:300],
                      'message': msg.split('\n')[0][:300], 'rendered': d.get('rendered', '')[:4000],
                      'obligation': '%s::%s::%s@%s' % (unit, fn, kname, site)})
    if 'panicked at' in r['stderr'] or r['rc'] == 101:
        k = r['stderr'].find('panicked at')
        res['reason'] = 'verus crashed (tool defect, rc=%s): %s' % (r['rc'], ' '.join(r['stderr'][k:k + 300].split()))
        return res
    if js == {} and not r['diags']:
        res['reason'] = 'verus produced no output (rc=%s): %s' % (r['rc'], r['stderr'][-500:])
        return res
    if vr.get('encountered-vir-error') or (hard and not any(True for _ in fails)) or (hard and not js.get('times-ms')):
        res['reason'] = 'verus front end rejected the unit (tool limit / construct outside the subset): ' + ' | '.join(hard[:5])
        res['hard'] = hard
        return res
    # function-level queries
    obl = []
    smt = js.get('times-ms', {}).get('smt', {})
    for mod in smt.get('smt-run-module-times', []):
        for f in mod.get('function-breakdown', []):
            nm = f['function']
            short = nm.split('::', 1)[1] if '::' in nm else nm
            obl.append({'function': short, 'mode': f.get('mode:') or f.get('mode'), 'ok': bool(f.get('success')),
                        'time_us': f.get('time-micros', 0), 'rlimit': f.get('rlimit', 0)})
    res['solver_s'] = smt.get('total', 0) / 1000.0
    res['verified_count'] = vr.get('verified', 0)
    res['error_count'] = vr.get('errors', 0)
    # --- canaries: must fail
    canary_fns = [nm for nm, a, b in ranges if nm.split('::')[-1].startswith('canary_')]
    canary_failed = set(f['function'] for f in fails if f['function'].split('::')[-1].startswith('canary_'))
    res['canaries'] = {c: (c in canary_failed) for c in canary_fns}
    real_fails = [f for f in fails if not f['function'].split('::')[-1].startswith('canary_')]
    res['obligations'] = [o for o in obl if not o['function'].split('::')[-1].startswith('canary_')]
    if hard:
        # rlimit etc. alongside ordinary failures: the functions that ran out of resources are undecided (see ./check)
        res['hard'] = hard
        res['hard_items'] = hard_items
    vac = [c for c, ok in res['canaries'].items() if not ok]
    if vac:
        res['reason'] = 'vacuity canary verified (contradictory precondition?): %s' % ', '.join(vac)
        return res
    nq = len(res['obligations'])
    if nq < cfg.get('min_queries', 1):
        res['reason'] = 'only %d function queries generated, expected >= %d (extraction lost an item?)' % (nq, cfg.get('min_queries', 1))
        return res
    if real_fails:
        # stabilise: a failure is *unstable* (not reported) iff some re-run (4x rlimit, another solver seed) verifies
        # the whole function; re-runs that hit the resource limit are inconclusive and do not clear a failure
        stable = set(f['obligation'] for f in real_fails)
        failing_fns = set(f['function'] for f in real_fails)
        for sd in (11, 23):
            r2 = run_verus(path, rlimit=40, seed=sd)
            ok_fns = set()
            for mod in r2['json'].get('times-ms', {}).get('smt', {}).get('smt-run-module-times', []):
                for fb in mod.get('function-breakdown', []):
                    if fb.get('success'):
                        nm = fb['function']
                        ok_fns.add(nm.split('::', 1)[1] if '::' in nm else nm)
            for fn in failing_fns:
                # verus names impl methods `Type::method` or `impl&%N::method`; compare on the last segment + uniqueness
                last = fn.split('::')[-1]
                cands = [o for o in ok_fns if o.split('::')[-1] == last]
                # exact (module-qualified) name only: `tetris::DepOrder::push` verifying says nothing about `DepOrder::push`
                same = [o for o in cands if o == fn]
                if same or (len(cands) == 1 and len([g for g in failing_fns if g.split('::')[-1] == last]) == 1 and not any(
                        (d.get('level') == 'error' and fn_at((spans_of(d)[1] or spans_of(d)[0] or [{'line_start': 0}])[0]['line_start']) == fn) for d in r2['diags'])):
                    stable = stable - set(f['obligation'] for f in real_fails if f['function'] == fn)
        res['failures'] = [f for f in real_fails if f['obligation'] in stable]
        res['unstable'] = [f for f in real_fails if f['obligation'] not in stable]
        if res['failures']:
            res['status'] = 'violation'
        else:
            res['reason'] = 'failures did not persist under other seeds / 4x rlimit (unstable proof): ' + ', '.join(f['obligation'] for f in real_fails)
        res['wall_s'] = time.time() - t0
        return res
    if hard:
        res['reason'] = 'resource limit: ' + ' | '.join(hard[:5])
        return res
    if not vr.get('success') and vr.get('errors', 0) > len(canary_failed):
        res['reason'] = 'verus reported failure without a classified diagnostic: ' + r['stderr'][-800:]
        return res
    res['status'] = 'ok'
    res['wall_s'] = time.time() - t0
    return res
