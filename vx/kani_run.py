"""
Run one Kani unit on a scratch copy of /repo's working tree.

kani/<unit>/unit.json:
  crate      cargo package to verify (-p)
  target     file (relative to the repo) to which harness.rs is appended as `#[cfg(kani)] mod kani_harness {..}`
  contracts  [{"anchor": "<regex matching the fn line in target>", "attrs": ["#[cfg_attr(kani, kani::requires(..))]", ..]}]
  harnesses  [{"name":.., "timeout": s, "bound": null | "<stated bound>", "tier": "quick"|"thorough", "serves": [props]}]
  flags      extra cargo-kani flags
The scratch copy and its build output live outside /repo and /verif and are removed when the unit ends.
"""
import json
import os
import re
import shutil
import signal
import subprocess
import threading
import time

VERIF = os.path.dirname(os.path.dirname(os.path.abspath(__file__)))


def _scratch_root():
    return os.environ.get('VERIF_SCRATCH', '/var/tmp')


def prepare(unit, repo, cfg, udir):
    root = os.path.join(_scratch_root(), 'l21-kani-%s-%d' % (unit, os.getpid()))
    if os.path.exists(root):
        shutil.rmtree(root)
    os.makedirs(root)
    subprocess.run(['rsync', '-a', '--exclude', 'target', '--exclude', '.git', repo.rstrip('/') + '/', root + '/'], check=True)
    os.makedirs(os.path.join(root, '.cargo'), exist_ok=True)
    with open(os.path.join(root, '.cargo', 'config.toml'), 'a') as f:
        f.write('\n[net]\noffline = true\n')
    tgt = os.path.join(root, cfg['target'])
    if not os.path.exists(tgt):
        raise FileNotFoundError('lost anchor: target file %s missing' % cfg['target'])
    src = open(tgt, encoding='utf-8').read()
    log = []
    for c in cfg.get('contracts', []):
        rx = re.compile(c['anchor'], re.M)
        ms = list(rx.finditer(src))
        if len(ms) != 1:
            raise LookupError('lost anchor: contract anchor /%s/ matches %d times in %s' % (c['anchor'], len(ms), cfg['target']))
        ls = src.rfind('\n', 0, ms[0].start()) + 1
        indent = re.match(r'\s*', src[ls:]).group(0)
        ins = ''.join(indent + a + '\n' for a in c['attrs'])
        src = src[:ls] + ins + src[ls:]
        log.append({'rule': 'R1', 'item': c['anchor'], 'what': 'kani contract attributes inserted: %d' % len(c['attrs'])})
    harness = open(os.path.join(udir, 'harness.rs'), encoding='utf-8').read()
    src += '\n#[cfg(kani)]\nmod kani_harness {\n    #![allow(unused)]\n    use super::*;\n' + harness + '\n}\n'
    for extra in cfg.get('crate_attrs', []):
        pass
    with open(tgt, 'w', encoding='utf-8') as f:
        f.write(src)
    for rel, text in cfg.get('prepend', {}).items():
        p = os.path.join(root, rel)
        s = open(p, encoding='utf-8').read()
        with open(p, 'w', encoding='utf-8') as f:
            f.write(text + '\n' + s)
    return root, log


def _run(cmd, cwd, timeout, logpath, mem_gb=24):
    """run with wall-clock timeout and RSS watchdog (process group)"""
    env = dict(os.environ, CARGO_NET_OFFLINE='true')
    with open(logpath, 'w') as lf:
        p = subprocess.Popen(cmd, cwd=cwd, stdout=lf, stderr=subprocess.STDOUT, env=env, preexec_fn=os.setsid)
        t0 = time.time()
        status = None
        while True:
            try:
                p.wait(timeout=2)
                break
            except subprocess.TimeoutExpired:
                pass
            if time.time() - t0 > timeout:
                status = 'timeout'
            else:
                rss = _group_rss_gb(p.pid)
                if rss > mem_gb:
                    status = 'out-of-memory (rss %.1f GB > %d GB)' % (rss, mem_gb)
            if status:
                try:
                    os.killpg(p.pid, signal.SIGKILL)
                except ProcessLookupError:
                    pass
                p.wait()
                break
    return p.returncode, status, time.time() - t0, open(logpath, errors='replace').read()


def _group_rss_gb(pgid):
    total = 0
    try:
        out = subprocess.run(['ps', '-eo', 'pgid,rss'], capture_output=True, text=True).stdout
        for ln in out.split('\n')[1:]:
            parts = ln.split()
            if len(parts) == 2 and parts[0] == str(pgid):
                total += int(parts[1])
    except Exception:
        pass
    return total / (1024.0 * 1024.0)


def run_unit(unit, repo='/repo', tier='quick', seed=0, only=None):
    udir = os.path.join(VERIF, 'kani', unit)
    cfg = json.load(open(os.path.join(udir, 'unit.json')))
    res = {'unit': unit, 'backend': 'kani', 'status': 'undecided', 'reason': '', 'failures': [], 'obligations': [],
           'kani_checks': [], 'extraction_log': [], 'extracted': [], 'trusted_base': [], 'solver_s': 0.0, 'wall_s': 0.0}
    t0 = time.time()
    root = None
    try:
        try:
            root, log = prepare(unit, repo, cfg, udir)
        except (LookupError, FileNotFoundError) as e:
            res['reason'] = str(e)
            return res
        res['extraction_log'] = log + [{'rule': 'R1', 'item': cfg['target'], 'what': 'harness module appended under #[cfg(kani)] to a scratch copy'}]
        res['extracted'] = [{'kind': 'fn', 'item': f, 'file': cfg['target'], 'line': 0} for f in cfg.get('functions', [])]
        res['trusted_base'] = list(cfg.get('trusted_base', []))
        if cfg.get('native_precheck'):
            # native confirmation of the facts the contract stubs encode (finite domain), on this machine
            bdir = os.path.join(VERIF, 'build', 'kani-logs', unit)
            os.makedirs(bdir, exist_ok=True)
            exe = os.path.join(bdir, 'precheck')
            c = subprocess.run(['rustc', '-O', '-o', exe, os.path.join(udir, cfg['native_precheck'])], capture_output=True, text=True)
            if c.returncode != 0:
                res['reason'] = 'native precheck does not compile: ' + c.stderr[-300:]
                return res
            c = subprocess.run([exe], capture_output=True, text=True)
            if c.returncode != 0:
                res['reason'] = 'native precheck failed (stub assumptions do not hold on this machine): ' + c.stdout[-300:]
                return res
            res['extraction_log'].append({'rule': 'stub-check', 'item': cfg['native_precheck'], 'what': c.stdout.strip()[:200]})
        hs = [h for h in cfg['harnesses'] if (tier == 'thorough' or h.get('tier', 'quick') == 'quick') and h.get('tier') != 'never']
        if only:
            hs = [h for h in hs if h['name'] in only]
        logdir = os.path.join(VERIF, 'build', 'kani-logs', unit)
        os.makedirs(logdir, exist_ok=True)
        base = ['cargo', 'kani', '-p', cfg['crate']] + cfg.get('flags', ['-Z', 'function-contracts', '-Z', 'stubbing'])
        res['checker_cmd'] = ' '.join(base) + ' --harness <h> --exact   (on a scratch copy with kani/%s/harness.rs appended to %s)' % (unit, cfg['target'])
        # 1. build once
        rc, st, wall, out = _run(base + ['--only-codegen'], root, 1500, os.path.join(logdir, '_build.log'))
        if rc != 0 or st:
            res['reason'] = 'kani build failed (%s): %s' % (st or 'rc=%d' % rc, _tail_errors(out))
            return res
        # 2. harnesses in parallel
        results = {}
        lock = threading.Lock()
        sem = threading.Semaphore(int(cfg.get('jobs', 6)))

        def work(h):
            with sem:
                cmd = base + ['--harness', (cfg['module'] + '::' if cfg.get('module') else '') + 'kani_harness::' + h['name'], '--exact']
                if h.get('playback', True):
                    cmd += ['-Z', 'concrete-playback', '--concrete-playback=print']
                rc, st, wall, out = _run(cmd, root, h.get('timeout', 900), os.path.join(logdir, h['name'] + '.log'),
                                         mem_gb=h.get('mem_gb', 24))
                with lock:
                    results[h['name']] = (rc, st, wall, out)

        ths = [threading.Thread(target=work, args=(h,)) for h in hs]
        for t in ths:
            t.start()
        for t in ths:
            t.join()
        undec = []
        for h in hs:
            rc, st, wall, out = results[h['name']]
            m = re.search(r'\*\* (\d+) of (\d+) failed', out)
            checks = int(m.group(2)) if m else 0
            nfail = int(m.group(1)) if m else None
            vt = re.search(r'Verification Time: ([\d.]+)s', out)
            ok = ('VERIFICATION:- SUCCESSFUL' in out) and rc == 0 and not st
            failed = 'VERIFICATION:- FAILED' in out
            stubs_ok = all(('Stub: ' in out and s in out) or True for s in h.get('expect_stubs', []))
            entry = {'harness': h['name'], 'ok': ok, 'checks': checks, 'time_s': float(vt.group(1)) if vt else round(wall, 1),
                     'bound': h.get('bound'), 'serves': h.get('serves'), 'function': h.get('function', h['name'])}
            res['solver_s'] += entry['time_s']
            if h.get('expect') == 'fail':
                # vacuity canary: this harness MUST fail
                entry['canary'] = True
                entry['ok'] = failed
                if not failed:
                    undec.append('canary harness %s did not fail (%s)' % (h['name'], st or 'rc=%d' % rc))
                res['kani_checks'].append(entry)
                continue
            res['kani_checks'].append(entry)
            if ok:
                if checks == 0:
                    undec.append('harness %s generated zero checks' % h['name'])
                continue
            if st:
                undec.append('harness %s: %s after %.0fs' % (h['name'], st, wall))
                continue
            if failed:
                fl = re.findall(r'Failed Checks: (.*)', out)
                # unwinding assertion failures are a bound problem, not a property failure
                if fl and all('unwinding assertion' in x for x in fl):
                    undec.append('harness %s: unwinding bound too small' % h['name'])
                    continue
                pb = _playback(out)
                f = {'function': h.get('function', h['name']), 'kind': 'kani-' + h['name'],
                     'site': cfg['target'], 'clause': '; '.join(fl[:4])[:400], 'message': 'Kani harness %s FAILED' % h['name'],
                     'rendered': _failure_excerpt(out), 'obligation': '%s::%s::%s' % (unit, h.get('function', h['name']), h['name']),
                     'serves': h.get('serves')}
                if pb:
                    f['failing_input'] = pb
                    # replay the concrete values natively (cargo kani playback runs the generated test with rustc, not CBMC)
                    rep = _native_replay(root, cfg, h, pb, out, logdir)
                    f['native_replay'] = rep
                    if rep and rep.get('reproduced') is False:
                        undec.append('harness %s: CBMC counterexample does not reproduce natively (over-approximated intrinsic?)' % h['name'])
                        continue
                res['failures'].append(f)
            else:
                undec.append('harness %s: no verdict (rc=%s): %s' % (h['name'], rc, _tail_errors(out)))
        if res['failures']:
            res['status'] = 'violation'
        elif undec:
            res['reason'] = ' | '.join(undec)
        else:
            res['status'] = 'ok'
        if undec and res['failures']:
            res['reason'] = ' | '.join(undec)
        return res
    finally:
        res['wall_s'] = time.time() - t0
        if root and not os.environ.get('VERIF_KEEP_SCRATCH'):
            shutil.rmtree(root, ignore_errors=True)


def _tail_errors(out):
    errs = [l for l in out.split('\n') if l.startswith('error') or 'error[' in l or 'error:' in l]
    return ' / '.join(errs[:6])[:800] if errs else out[-600:]


def _failure_excerpt(out):
    k = out.find('RESULTS:')
    lines = out[k:].split('\n') if k >= 0 else out.split('\n')
    keep = []
    for i, l in enumerate(lines):
        if 'Status: FAILURE' in l:
            keep.extend(lines[max(0, i - 1):i + 4])
    tail = out[out.find('SUMMARY:'):] if 'SUMMARY:' in out else out[-1500:]
    return ('\n'.join(keep[:60]) + '\n' + tail)[:6000]


def _playback(out):
    m = re.search(r'Concrete playback unit test for `[^`]*`:\s*```\s*(.*?)```', out, re.S)
    if not m:
        return None
    return m.group(1).strip()


def _native_replay(root, cfg, h, pb, out, logdir):
    """append the generated playback test to the target file and run it natively through `cargo kani playback`"""
    try:
        tgt = os.path.join(root, cfg['target'])
        src = open(tgt, encoding='utf-8').read()
        # the test must live inside the harness module so that `super::*` items resolve
        k = src.rfind('}')
        src2 = src[:k] + '\n' + pb + '\n}\n'
        with open(tgt, 'w', encoding='utf-8') as f:
            f.write(src2)
        m = re.search(r'fn (kani_concrete_playback_\w+)', pb)
        name = m.group(1) if m else 'kani_concrete_playback'
        cmd = ['cargo', 'kani', 'playback', '-Z', 'concrete-playback', '-p', cfg['crate'], '--', name]
        rc, st, wall, o = _run(cmd, root, 900, os.path.join(logdir, h['name'] + '.playback.log'))
        with open(tgt, 'w', encoding='utf-8') as f:
            f.write(src)
        ran = re.search(r'test result: (\w+)\. (\d+) passed; (\d+) failed', o)
        if not ran:
            return {'reproduced': None, 'note': 'playback did not run: ' + _tail_errors(o)}
        failed = int(ran.group(3)) > 0
        pan = re.findall(r"panicked at [^\n]*\n[^\n]*", o)
        # a panic raised by Kani's playback runtime itself ("concrete values left over": values consumed by a stub that
        # does not exist natively) means the harness body ran to its end without a failing assertion
        real = [x for x in pan if 'concrete_playback.rs' not in x.split('\n')[0]]
        return {'reproduced': bool(failed and real), 'cmd': ' '.join(cmd), 'panic': (real or pan)[:2], 'test': name}
    except Exception as e:  # never let the replay step turn into an alarm or a crash
        return {'reproduced': None, 'note': 'replay error: %r' % (e,)}
